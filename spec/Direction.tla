------------------------------ MODULE Direction ------------------------------
(* di.Direction as a record of independent components (C20, last clause):                    *)
(*   prog (0 FromTopLeft, 1 TowardTopLeft), vert (axis), oset (vertical orientation set),      *)
(*   side (sideways bit), hi (the four unused high bits, carried along untouched).             *)
(* Setters: SetProgression(p), SwitchAxis, SetSideways(b). Each changes only its own           *)
(* component, with the documented coupling: SetSideways forces vertical + orientation set.     *)
(* Model-checked over all 256 values (DirectionMC.cfg) and replayed on the real type.          *)
EXTENDS Integers
VARIABLE d
Values == [prog : {0, 1}, vert : BOOLEAN, oset : BOOLEAN, side : BOOLEAN, hi : 0..15]

Bit(b) == IF b THEN 1 ELSE 0
Encode(r) == r.prog + 2 * Bit(r.vert) + 4 * Bit(r.oset) + 8 * Bit(r.side) + 16 * r.hi
Decode(v) == [prog |-> v % 2, vert |-> (v \div 2) % 2 = 1, oset |-> (v \div 4) % 2 = 1, side |-> (v \div 8) % 2 = 1, hi |-> v \div 16]

SetProgressionOf(r, p) == [r EXCEPT !.prog = p]
SwitchAxisOf(r) == [r EXCEPT !.vert = ~r.vert]
SetSidewaysOf(r, b) == [r EXCEPT !.vert = TRUE, !.oset = TRUE, !.side = b]

(* accessors *)
IsVertical(r) == r.vert
IsSideways(r) == r.vert /\ r.side
HasVerticalOrientation(r) == r.oset
Harfbuzz(r) == IF r.vert THEN (IF r.prog = 1 THEN "BTT" ELSE "TTB") ELSE (IF r.prog = 1 THEN "RTL" ELSE "LTR")

Init == d \in Values
SetProgression(p) == d' = SetProgressionOf(d, p)
SwitchAxis == d' = SwitchAxisOf(d)
SetSideways(b) == d' = SetSidewaysOf(d, b)
Next == (\E p \in {0, 1} : SetProgression(p)) \/ SwitchAxis \/ (\E b \in BOOLEAN : SetSideways(b))
Spec == Init /\ [][Next]_d

(* laws: independence of the components under the setters *)
ProgressionIndependent == [][(\E p \in {0, 1} : SetProgression(p)) => (d'.vert = d.vert /\ d'.oset = d.oset /\ d'.side = d.side /\ d'.hi = d.hi)]_d
AxisIndependent == [][SwitchAxis => (d'.prog = d.prog /\ d'.oset = d.oset /\ d'.side = d.side /\ d'.hi = d.hi /\ d'.vert # d.vert)]_d
SidewaysCoupling == [][(\E b \in BOOLEAN : SetSideways(b)) => (d'.prog = d.prog /\ d'.hi = d.hi /\ d'.vert /\ d'.oset)]_d
RoundTrip == Decode(Encode(d)) = d
TypeOK == d \in Values
=============================================================================
