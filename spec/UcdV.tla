-------------------------------- MODULE UcdV --------------------------------
(* Trace validator for C20: events of kind dir (Direction setters), family (classification     *)
(* table families), mirror, decomp, comp, lang, langid, langprimary.                           *)
EXTENDS Tables, LangTag, TLC, Json, IOUtils
D == INSTANCE Direction WITH d <- 0
VARIABLES l, fails, nontriv
Trace == ndJsonDeserialize(IOEnv.VERIF_TRACE)
Init == l = 1 /\ fails = {} /\ nontriv = 0
F(name, b) == IF b THEN {} ELSE {name}

AccOk(r, acc) == /\ acc.vert = D!IsVertical(r) /\ acc.side = D!IsSideways(r) /\ acc.oset = D!HasVerticalOrientation(r)
                 /\ acc.prog = r.prog /\ acc.hb = D!Harfbuzz(r)
DirBad(e) ==
  LET r == D!Decode(e.v)
      exp == CASE e.op = "SetProgression" -> D!SetProgressionOf(r, e.arg)
               [] e.op = "SwitchAxis" -> D!SwitchAxisOf(r)
               [] OTHER -> D!SetSidewaysOf(r, e.arg = 1)
  IN F("Direction.Setter", D!Encode(exp) = e.after) \cup F("Direction.Accessors", AccOk(r, e.accb) /\ AccOk(D!Decode(e.after), e.acc))

FamilyBad(e) == IF ~MergeFaithful(e) THEN {"Tables.HarnessMerge"}
                ELSE F("Tables.ExactlyOne." \o e.name, ExactlyOne(e)) \cup F("Tables.LookupAgrees." \o e.name, LookupAgrees(e))

DecompBad(e) ==   \* entries <<ab, a, b, excluded, comp, compok>>
  F("ComposeInverse.DecomposeThenCompose", \A i \in DOMAIN e.entries : LET x == e.entries[i] IN (x[4] = 0) => (x[6] = 1 /\ x[5] = x[1]))
  \cup F("ComposeInverse.ExcludedNeverComposed", \A i \in DOMAIN e.entries : LET x == e.entries[i] IN (x[4] = 1) => ~(x[6] = 1 /\ x[5] = x[1]))
CompBad(e) ==     \* entries <<a, b, ab, da, db, dok>>
  F("ComposeInverse.ComposeThenDecompose", \A i \in DOMAIN e.entries : LET x == e.entries[i] IN x[6] = 1 /\ x[4] = x[1] /\ x[5] = x[2])

Bad(e) == CASE e.k = "dir" -> DirBad(e)
            [] e.k = "family" -> FamilyBad(e)
            [] e.k = "mirror" -> F("Mirroring.Involution", Involution(e.pairs))
            [] e.k = "decomp" -> DecompBad(e)
            [] e.k = "comp" -> CompBad(e)
            [] e.k = "lang" -> F("LangTag.Idempotent", Idempotent(e)) \cup F("LangTag.CanonSpec", CanonSpec(e))
            [] e.k = "langid" -> F("LangTag.RoundTrip", RoundTrip(e))
            [] e.k = "langprimary" -> F("LangTag.PrimaryFallback", PrimaryFallback(e))
            [] OTHER -> {"UnknownEvent"}
Step == /\ l <= Len(Trace)
        /\ fails' = fails \cup {[line |-> l, pred |-> b] : b \in Bad(Trace[l])}
        /\ nontriv' = nontriv + 1
        /\ l' = l + 1
Next == Step
Keep == TLCSet(1, fails) /\ TLCSet(2, nontriv)
Post == /\ TLCGet("stats").diameter - 1 = Len(Trace)
        /\ JsonSerialize(IOEnv.VERIF_OUT, [n |-> Len(Trace), fails |-> TLCGet(1), nontrivial |-> TLCGet(2)])
=============================================================================
