------------------------------ MODULE WrapImpl ------------------------------
(* Implementation model of shaping.LineWrapper (C02-C04, flow M): the state machine of          *)
(* WrapNextLine / wrapNextLine / processBreakOption / postProcessLine with the breaker's          *)
(* carried-over candidates (unusedWordBreak, previousWordBreak, isUnusedWord, unusedGraphemeBreak, *)
(* isUnusedGrapheme), the run iterator checkpoint (idx / saved) and the candidate / best lines.     *)
(* Scope: left-to-right, one glyph of advance 1 per cluster. Positions are rune indices; a break   *)
(* option is identified by breakAtRune (= exclusive end - 1) as in the Go code. The scenario        *)
(* (boundary sets, clusters, runs, policy, truncation, width) is chosen in four nondeterministic   *)
(* steps so that all TLC workers share the enumeration. TLC checks that every line the model emits  *)
(* satisfies the property predicates (same definitions as Wrap.tla, restated on abstract boundary   *)
(* sets) and that the model terminates. Diagnostic: it models the code as repaired by the fixes     *)
(* listed in DESIGN.md section 8; with a repair removed (markWordOptionInvalid, the pre-commit on     *)
(* `truncated`, cutting a whole first run under letter spacing) TLC produces the counterexamples    *)
(* that the real code used to show.                                                                 *)
EXTENDS Naturals, Integers, Sequences, FiniteSets, TLC

CONSTANTS MaxN, Policies, Truncs, MaxRuns, FixInvalid, FixTrunc, FixFirstRun, LSs

Never == "Never"  Always == "Always"  WhenNec == "WhenNecessary"

(* ---------- scenario space (constructive) ---------- *)
SmallSubsets(S, k) == {x \in SUBSET S : Cardinality(x) <= k}

SortedSeq(S) == LET RECURSIVE F(_) F(T) == IF T = {} THEN << >> ELSE LET m == CHOOSE x \in T : \A y \in T : x <= y IN << m >> \o F(T \ {m}) IN F(S)

(* runs as sequence of [off, end) *)
RunsOf(s) == LET st == SortedSeq(s.rb) IN
  [i \in 1..Len(st) |-> [off |-> st[i], end |-> IF i < Len(st) THEN st[i + 1] ELSE s.n]]

(* number of clusters (= advance) in [a,b) ; a,b cluster boundaries *)
Adv(s, a, b) == Cardinality({x \in s.cb : x >= a /\ x < b})

(* Letter spacing (abstracted to its leading half): with s.ls = 1 every cluster carries one unit of     *)
(* leading spacing in front of its unit of ink; cutRun removes it from the first glyph of a piece that   *)
(* starts a line (trim).                                                                                 *)
CAdv(s) == 1 + s.ls
PieceAdv(s, a, b, trim) == Adv(s, a, b) * CAdv(s) - (IF trim /\ Adv(s, a, b) > 0 THEN s.ls ELSE 0)
(* advance of piece [a,b) discounting a trailing whitespace cluster (its own advance, after trimming) *)
AdvSpaceAwareT(s, a, b, trim) ==
  LET lastAdv == IF Adv(s, a, b) = 1 /\ trim THEN CAdv(s) - s.ls ELSE CAdv(s)
  IN IF b > a /\ (b - 1) \in s.ws THEN PieceAdv(s, a, b, trim) - lastAdv ELSE PieceAdv(s, a, b, trim)


RECURSIVE Fill(_, _, _, _, _, _, _)
Fill(s, rs, i, ls, opt, alt, adv) ==
  IF i > Len(rs) \/ ~(opt >= rs[i].end) THEN [idx |-> i, alt |-> alt, adv |-> adv]
  ELSE IF ls >= rs[i].end THEN Fill(s, rs, i + 1, ls, opt, alt, adv)
  ELSE LET a == IF ls > rs[i].off THEN ls ELSE rs[i].off
           \* a run partly used by the previous line is cut (and trimmed when it starts the line); a run used
           \* entirely is appended as is - unless the repair FixFirstRun cuts it too
           trim == alt = << >> /\ (ls > rs[i].off \/ FixFirstRun)
       IN Fill(s, rs, i + 1, ls, opt, Append(alt, << a, rs[i].end >>), adv + PieceAdv(s, a, rs[i].end, trim))

FillResult(s, rs, i, ls, opt, alt, adv) == Fill(s, rs, i, ls, opt, alt, adv)

RECURSIVE NG(_, _, _, _, _, _)
NG(gbs, gi, isUnused, unused, prevW, unusedW) ==
  LET has == isUnused \/ gi <= Len(gbs)
      o == IF isUnused THEN unused ELSE gbs[gi] - 1
      gi2 == IF isUnused THEN gi ELSE gi + 1
  IN IF ~has THEN [ok |-> FALSE, opt |-> 0, gi |-> gi, isUnused |-> FALSE, unused |-> unused]
     ELSE IF o <= prevW /\ prevW > 0 THEN NG(gbs, gi2, FALSE, unused, prevW, unusedW)
     ELSE IF o > unusedW THEN [ok |-> FALSE, opt |-> o, gi |-> gi2, isUnused |-> TRUE, unused |-> o]
     ELSE [ok |-> TRUE, opt |-> o, gi |-> gi2, isUnused |-> FALSE, unused |-> o]

NextGrapheme(gbs, gi, isUnused, unused, prevW, unusedW) == NG(gbs, gi, isUnused, unused, prevW, unusedW)

(* ---------- property spec on the produced lines ---------- *)
LineStartOf(ls, k) == IF k = 1 THEN 0 ELSE
  LET RECURSIVE Prev(_) Prev(j) == IF j < 1 THEN 0 ELSE IF Len(ls[j].pieces) > 0 THEN ls[j].pieces[Len(ls[j].pieces)][2] ELSE Prev(j - 1) IN Prev(k - 1)
LineEndOf(ls, k) == IF Len(ls[k].pieces) > 0 THEN ls[k].pieces[Len(ls[k].pieces)][2] ELSE LineStartOf(ls, k)

Contig(ls, k) == LET ps == ls[k].pieces IN
  \A j \in 1..Len(ps) : /\ ps[j][1] < ps[j][2]
                          /\ ps[j][1] = (IF j = 1 THEN LineStartOf(ls, k) ELSE ps[j - 1][2])

Permitted(s, e, fine) == e \in s.cb /\ (e = s.n \/ e \in s.wb \/ (fine /\ e \in s.gb))
WidthOf(s, a, b) == AdvSpaceAwareT(s, a, b, TRUE)      \* a line starts trimmed
FirstPermitted(s, a, fine) == LET c == {e \in (a + 1)..s.n : Permitted(s, e, fine)} IN IF c = {} THEN s.n ELSE CHOOSE e \in c : \A y \in c : e <= y

LegalEnd(s, ls, k) == LET a == LineStartOf(ls, k) e == LineEndOf(ls, k) IN e = a \/ Permitted(s, e, s.policy # Never)
Mandatory(s, ls, k) == LET a == LineStartOf(ls, k) e == LineEndOf(ls, k) IN \A m \in s.mb : ~(m \in s.cb /\ a < m /\ m < e)
Fits(s, ls, k) ==
  LET a == LineStartOf(ls, k) e == LineEndOf(ls, k)
      mw == IF ls[k].lastTrunc /\ ~(e = s.n /\ ~s.cont) THEN s.width - 1 ELSE s.width
  IN e = a \/ WidthOf(s, a, e) <= mw \/ e = FirstPermitted(s, a, s.policy # Never)
Greedy(s, ls, k) ==
  LET a == LineStartOf(ls, k) e == LineEndOf(ls, k)
      fw == FirstPermitted(s, a, FALSE)
      fine == s.policy = Always \/ (s.policy = WhenNec /\ WidthOf(s, a, fw) > s.width)
      nxt == FirstPermitted(s, e, fine)
  IN (e < s.n /\ e > a /\ e \notin s.mb /\ ~ls[k].lastTrunc) =>
       \/ WidthOf(s, a, nxt) > s.width
       \/ \E m \in s.mb : m \in s.cb /\ a < m /\ m < nxt
NonEmpty(ls, k) == Len(ls[k].pieces) > 0 \/ ls[k].hasTruncator

(*
--algorithm Wrap {
  variables
    scen = [n |-> 0, gb |-> {}, wb |-> {}, mb |-> {}, cb |-> {}, ws |-> {}, rb |-> {}, policy |-> "Never", trunc |-> 0, cont |-> FALSE, width |-> 0, ls |-> 0],
    runs = << >>,
    wbs = << >>, gbs = << >>,
    lineStart = 0, more = TRUE, left = 0,
    wi = 1, gi = 1,
    unusedW = 0, unusedWReq = FALSE, prevW = 0, isUnusedW = FALSE,
    unusedG = 0, isUnusedG = FALSE,
    idx = 1, saved = 1,
    alt = << >>, altAdv = 0, altS = << >>, altAdvS = 0,
    best = << >>, hasBest = FALSE,
    lines = << >>, truncatedCount = 0,
    opt = 0, optReq = FALSE, ok = FALSE, res = "", cand = << >>, ldone = FALSE,
    truncating = FALSE, maxW = 0, truncW = 0, phase = "word", steps = 0;

  define {
    N == scen.n
    NRuns == Len(runs)
  }

  \* processBreakOption on (opt) ; sets res, cand ; mutates idx, alt, altAdv
  macro Process() {
    if (opt < lineStart) { res := "invalid"; }
    else {
      \* fillUntil
      with (r = FillResult(scen, runs, idx, lineStart, opt, alt, altAdv)) {
        idx := r.idx; alt := r.alt; altAdv := r.adv;
        \* run containing the option is runs[r.idx]
        if (r.idx > Len(runs)) { res := "invalid"; cand := << >>; }   \* defensive: cannot happen
        else {
          with (run = runs[r.idx]; e = opt + 1; a = IF lineStart > run.off THEN lineStart ELSE run.off) {
            if (e < run.end /\ e > run.off /\ e \notin scen.cb) { res := "invalid"; }
            else {
              with (w = r.adv + AdvSpaceAwareT(scen, a, e, r.alt = << >>)) {
                cand := << a, e >>;
                if (w > maxW) { res := IF hasBest THEN "newLineBeforeBreak" ELSE "cannotFit"; }
                else if (truncating /\ w > truncW) {
                  res := IF e = scen.n /\ ~scen.cont THEN "endLine" ELSE "truncated";
                }
                else { res := "fits"; }
              }
            }
          }
        }
      }
    }
  }

  {
  s1:
    with (n \in 1..MaxN; G \in SUBSET (1..(n - 1)); W \in SUBSET G) {
      scen := [scen EXCEPT !.n = n, !.gb = G \cup {n}, !.wb = W \cup {n}];
    };
  s2:
    with (M \in SUBSET (scen.wb \ {scen.n}); C \in SUBSET (scen.gb \ {scen.n})) {
      scen := [scen EXCEPT !.mb = M, !.cb = C \cup {0, scen.n}];
    };
  s3:
    with (R \in SmallSubsets(scen.cb \ {0, scen.n}, MaxRuns - 1);
          S \in SUBSET {x \in scen.cb : x < scen.n /\ (x + 1) \in scen.cb}) {
      scen := [scen EXCEPT !.rb = R \cup {0}, !.ws = S];
    };
  s4:
    with (p \in Policies; t \in Truncs; c \in BOOLEAN; l \in LSs; w \in 0..(scen.n * (1 + l) + 1)) {
      await t # 0 \/ ~c;
      scen := [scen EXCEPT !.policy = p, !.trunc = t, !.cont = c, !.width = w, !.ls = l];
      left := t;
    };
  s5:
    runs := RunsOf(scen); wbs := SortedSeq(scen.wb); gbs := SortedSeq(scen.gb);
  nextline:
    while (more) {
      \* WrapNextLine
      alt := << >>; altAdv := 0; altS := << >>; altAdvS := 0; best := << >>; hasBest := FALSE;
      truncating := (left = 1); maxW := scen.width; truncW := scen.width - 1;
      ldone := FALSE; phase := "word";
    loop:
      while (phase # "end") {
        steps := steps + 1;
        if (phase = "word") {
          \* checkpoint
          altS := alt; altAdvS := altAdv; saved := idx;
          \* nextWordBreak
          if (isUnusedW) { opt := unusedW; optReq := unusedWReq; isUnusedW := FALSE; ok := TRUE; }
          else if (wi <= Len(wbs)) {
            opt := wbs[wi] - 1; optReq := (wbs[wi] \in scen.mb); ok := TRUE;
            prevW := unusedW; unusedW := wbs[wi] - 1; unusedWReq := (wbs[wi] \in scen.mb); wi := wi + 1;
          } else { ok := FALSE; };
        w1:
          if (~ok) { ldone := TRUE; phase := "end"; }
          else {
            Process();
          w2:
            if (res = "invalid") {
              alt := altS; altAdv := altAdvS; idx := saved;
              if (FixInvalid) { unusedW := prevW; };        \* breaker.markWordOptionInvalid
            }
            else if (res = "fits") {
              best := alt \o << cand >>; hasBest := TRUE;
              if (optReq) { ldone := FALSE; phase := "end"; }
            }
            else if (res = "endLine") { best := alt \o << cand >>; hasBest := TRUE; ldone := TRUE; phase := "end"; }
            else {
              if (res = "truncated") {
                if (~FixTrunc /\ ~hasBest) { best := alt; hasBest := (Len(alt) > 0); };     \* the removed pre-commit
                if (scen.policy = Never) { ldone := TRUE; phase := "end"; } else { phase := "graph0"; };
              } else if (res = "newLineBeforeBreak") {
                alt := altS; altAdv := altAdvS; idx := saved; isUnusedW := TRUE;
                if (scen.policy = Never \/ (scen.policy = WhenNec /\ ~truncating)) { ldone := FALSE; phase := "end"; }
                else { phase := "graph0"; };
              } else { \* cannotFit
                if (scen.policy = Never) {
                  if (truncating) { ldone := TRUE; phase := "end"; }
                  else { best := alt \o << cand >>; hasBest := TRUE; ldone := FALSE; phase := "end"; };
                } else { phase := "graph0"; };
              };
            }
          }
        }
        else if (phase = "graph0") {
          alt := altS; altAdv := altAdvS; idx := saved; phase := "graph";
        }
        else { \* phase = "graph"
          altS := alt; altAdvS := altAdv; saved := idx;
          \* nextGraphemeBreak (loop skipping already tried ones)
          with (r = NextGrapheme(gbs, gi, isUnusedG, unusedG, prevW, unusedW)) {
            gi := r.gi; isUnusedG := r.isUnused; unusedG := r.unused; ok := r.ok; opt := r.opt;
          };
        g1:
          if (~ok) { ldone := FALSE; phase := "end"; }
          else {
            Process();
          g2:
            if (res = "invalid") { alt := altS; altAdv := altAdvS; idx := saved; }
            else if (res = "fits") { best := alt \o << cand >>; hasBest := TRUE; isUnusedW := TRUE; }
            else if (res = "endLine") { best := alt \o << cand >>; hasBest := TRUE; ldone := TRUE; phase := "end"; }
            else if (res = "truncated") {
              if (~hasBest) { best := alt; hasBest := (Len(alt) > 0); };
              ldone := TRUE; phase := "end";
            }
            else if (res = "newLineBeforeBreak") {
              alt := altS; altAdv := altAdvS; idx := saved; isUnusedW := TRUE; isUnusedG := TRUE; ldone := FALSE; phase := "end";
            }
            else { \* cannotFit
              if (truncating) { ldone := TRUE; phase := "end"; }
              else { best := alt \o << cand >>; hasBest := TRUE; isUnusedW := TRUE; ldone := FALSE; phase := "end"; };
            }
          }
        }
      };
    post:
      \* postProcessLine
      if (Len(best) > 0) { lineStart := best[Len(best)][2]; };
    post2:
      with (hitZero = (scen.trunc > 0 /\ left - 1 = 0)) {
        if (scen.trunc > 0) { left := left - 1; };
        ldone := ldone \/ lineStart >= scen.n \/ hitZero;
        if (hitZero) { truncatedCount := scen.n - lineStart; };
      };
    post3:
      lines := Append(lines, [pieces |-> best, width |-> scen.width, lastTrunc |-> (scen.trunc > 0 /\ left = 0),
                              hasTruncator |-> (scen.trunc > 0 /\ left = 0 /\ (truncatedCount > 0 \/ scen.cont))]);
      if (ldone) { more := FALSE; };
    }
  }
}
*)

\* BEGIN TRANSLATION
VARIABLES pc, scen, runs, wbs, gbs, lineStart, more, left, wi, gi, unusedW, 
          unusedWReq, prevW, isUnusedW, unusedG, isUnusedG, idx, saved, alt, 
          altAdv, altS, altAdvS, best, hasBest, lines, truncatedCount, opt, 
          optReq, ok, res, cand, ldone, truncating, maxW, truncW, phase, 
          steps

(* define statement *)
N == scen.n
NRuns == Len(runs)


vars == << pc, scen, runs, wbs, gbs, lineStart, more, left, wi, gi, unusedW, 
           unusedWReq, prevW, isUnusedW, unusedG, isUnusedG, idx, saved, alt, 
           altAdv, altS, altAdvS, best, hasBest, lines, truncatedCount, opt, 
           optReq, ok, res, cand, ldone, truncating, maxW, truncW, phase, 
           steps >>

Init == (* Global variables *)
        /\ scen = [n |-> 0, gb |-> {}, wb |-> {}, mb |-> {}, cb |-> {}, ws |-> {}, rb |-> {}, policy |-> "Never", trunc |-> 0, cont |-> FALSE, width |-> 0, ls |-> 0]
        /\ runs = << >>
        /\ wbs = << >>
        /\ gbs = << >>
        /\ lineStart = 0
        /\ more = TRUE
        /\ left = 0
        /\ wi = 1
        /\ gi = 1
        /\ unusedW = 0
        /\ unusedWReq = FALSE
        /\ prevW = 0
        /\ isUnusedW = FALSE
        /\ unusedG = 0
        /\ isUnusedG = FALSE
        /\ idx = 1
        /\ saved = 1
        /\ alt = << >>
        /\ altAdv = 0
        /\ altS = << >>
        /\ altAdvS = 0
        /\ best = << >>
        /\ hasBest = FALSE
        /\ lines = << >>
        /\ truncatedCount = 0
        /\ opt = 0
        /\ optReq = FALSE
        /\ ok = FALSE
        /\ res = ""
        /\ cand = << >>
        /\ ldone = FALSE
        /\ truncating = FALSE
        /\ maxW = 0
        /\ truncW = 0
        /\ phase = "word"
        /\ steps = 0
        /\ pc = "s1"

s1 == /\ pc = "s1"
      /\ \E n \in 1..MaxN:
           \E G \in SUBSET (1..(n - 1)):
             \E W \in SUBSET G:
               scen' = [scen EXCEPT !.n = n, !.gb = G \cup {n}, !.wb = W \cup {n}]
      /\ pc' = "s2"
      /\ UNCHANGED << runs, wbs, gbs, lineStart, more, left, wi, gi, unusedW, 
                      unusedWReq, prevW, isUnusedW, unusedG, isUnusedG, idx, 
                      saved, alt, altAdv, altS, altAdvS, best, hasBest, lines, 
                      truncatedCount, opt, optReq, ok, res, cand, ldone, 
                      truncating, maxW, truncW, phase, steps >>

s2 == /\ pc = "s2"
      /\ \E M \in SUBSET (scen.wb \ {scen.n}):
           \E C \in SUBSET (scen.gb \ {scen.n}):
             scen' = [scen EXCEPT !.mb = M, !.cb = C \cup {0, scen.n}]
      /\ pc' = "s3"
      /\ UNCHANGED << runs, wbs, gbs, lineStart, more, left, wi, gi, unusedW, 
                      unusedWReq, prevW, isUnusedW, unusedG, isUnusedG, idx, 
                      saved, alt, altAdv, altS, altAdvS, best, hasBest, lines, 
                      truncatedCount, opt, optReq, ok, res, cand, ldone, 
                      truncating, maxW, truncW, phase, steps >>

s3 == /\ pc = "s3"
      /\ \E R \in SmallSubsets(scen.cb \ {0, scen.n}, MaxRuns - 1):
           \E S \in SUBSET {x \in scen.cb : x < scen.n /\ (x + 1) \in scen.cb}:
             scen' = [scen EXCEPT !.rb = R \cup {0}, !.ws = S]
      /\ pc' = "s4"
      /\ UNCHANGED << runs, wbs, gbs, lineStart, more, left, wi, gi, unusedW, 
                      unusedWReq, prevW, isUnusedW, unusedG, isUnusedG, idx, 
                      saved, alt, altAdv, altS, altAdvS, best, hasBest, lines, 
                      truncatedCount, opt, optReq, ok, res, cand, ldone, 
                      truncating, maxW, truncW, phase, steps >>

s4 == /\ pc = "s4"
      /\ \E p \in Policies:
           \E t \in Truncs:
             \E c \in BOOLEAN:
               \E l \in LSs:
                 \E w \in 0..(scen.n * (1 + l) + 1):
                   /\ t # 0 \/ ~c
                   /\ scen' = [scen EXCEPT !.policy = p, !.trunc = t, !.cont = c, !.width = w, !.ls = l]
                   /\ left' = t
      /\ pc' = "s5"
      /\ UNCHANGED << runs, wbs, gbs, lineStart, more, wi, gi, unusedW, 
                      unusedWReq, prevW, isUnusedW, unusedG, isUnusedG, idx, 
                      saved, alt, altAdv, altS, altAdvS, best, hasBest, lines, 
                      truncatedCount, opt, optReq, ok, res, cand, ldone, 
                      truncating, maxW, truncW, phase, steps >>

s5 == /\ pc = "s5"
      /\ runs' = RunsOf(scen)
      /\ wbs' = SortedSeq(scen.wb)
      /\ gbs' = SortedSeq(scen.gb)
      /\ pc' = "nextline"
      /\ UNCHANGED << scen, lineStart, more, left, wi, gi, unusedW, unusedWReq, 
                      prevW, isUnusedW, unusedG, isUnusedG, idx, saved, alt, 
                      altAdv, altS, altAdvS, best, hasBest, lines, 
                      truncatedCount, opt, optReq, ok, res, cand, ldone, 
                      truncating, maxW, truncW, phase, steps >>

nextline == /\ pc = "nextline"
            /\ IF more
                  THEN /\ alt' = << >>
                       /\ altAdv' = 0
                       /\ altS' = << >>
                       /\ altAdvS' = 0
                       /\ best' = << >>
                       /\ hasBest' = FALSE
                       /\ truncating' = (left = 1)
                       /\ maxW' = scen.width
                       /\ truncW' = scen.width - 1
                       /\ ldone' = FALSE
                       /\ phase' = "word"
                       /\ pc' = "loop"
                  ELSE /\ pc' = "Done"
                       /\ UNCHANGED << alt, altAdv, altS, altAdvS, best, 
                                       hasBest, ldone, truncating, maxW, 
                                       truncW, phase >>
            /\ UNCHANGED << scen, runs, wbs, gbs, lineStart, more, left, wi, 
                            gi, unusedW, unusedWReq, prevW, isUnusedW, unusedG, 
                            isUnusedG, idx, saved, lines, truncatedCount, opt, 
                            optReq, ok, res, cand, steps >>

loop == /\ pc = "loop"
        /\ IF phase # "end"
              THEN /\ steps' = steps + 1
                   /\ IF phase = "word"
                         THEN /\ altS' = alt
                              /\ altAdvS' = altAdv
                              /\ saved' = idx
                              /\ IF isUnusedW
                                    THEN /\ opt' = unusedW
                                         /\ optReq' = unusedWReq
                                         /\ isUnusedW' = FALSE
                                         /\ ok' = TRUE
                                         /\ UNCHANGED << wi, unusedW, 
                                                         unusedWReq, prevW >>
                                    ELSE /\ IF wi <= Len(wbs)
                                               THEN /\ opt' = wbs[wi] - 1
                                                    /\ optReq' = (wbs[wi] \in scen.mb)
                                                    /\ ok' = TRUE
                                                    /\ prevW' = unusedW
                                                    /\ unusedW' = wbs[wi] - 1
                                                    /\ unusedWReq' = (wbs[wi] \in scen.mb)
                                                    /\ wi' = wi + 1
                                               ELSE /\ ok' = FALSE
                                                    /\ UNCHANGED << wi, 
                                                                    unusedW, 
                                                                    unusedWReq, 
                                                                    prevW, opt, 
                                                                    optReq >>
                                         /\ UNCHANGED isUnusedW
                              /\ pc' = "w1"
                              /\ UNCHANGED << gi, unusedG, isUnusedG, idx, alt, 
                                              altAdv, phase >>
                         ELSE /\ IF phase = "graph0"
                                    THEN /\ alt' = altS
                                         /\ altAdv' = altAdvS
                                         /\ idx' = saved
                                         /\ phase' = "graph"
                                         /\ pc' = "loop"
                                         /\ UNCHANGED << gi, unusedG, 
                                                         isUnusedG, saved, 
                                                         altS, altAdvS, opt, 
                                                         ok >>
                                    ELSE /\ altS' = alt
                                         /\ altAdvS' = altAdv
                                         /\ saved' = idx
                                         /\ LET r == NextGrapheme(gbs, gi, isUnusedG, unusedG, prevW, unusedW) IN
                                              /\ gi' = r.gi
                                              /\ isUnusedG' = r.isUnused
                                              /\ unusedG' = r.unused
                                              /\ ok' = r.ok
                                              /\ opt' = r.opt
                                         /\ pc' = "g1"
                                         /\ UNCHANGED << idx, alt, altAdv, 
                                                         phase >>
                              /\ UNCHANGED << wi, unusedW, unusedWReq, prevW, 
                                              isUnusedW, optReq >>
              ELSE /\ pc' = "post"
                   /\ UNCHANGED << wi, gi, unusedW, unusedWReq, prevW, 
                                   isUnusedW, unusedG, isUnusedG, idx, saved, 
                                   alt, altAdv, altS, altAdvS, opt, optReq, ok, 
                                   phase, steps >>
        /\ UNCHANGED << scen, runs, wbs, gbs, lineStart, more, left, best, 
                        hasBest, lines, truncatedCount, res, cand, ldone, 
                        truncating, maxW, truncW >>

w1 == /\ pc = "w1"
      /\ IF ~ok
            THEN /\ ldone' = TRUE
                 /\ phase' = "end"
                 /\ pc' = "loop"
                 /\ UNCHANGED << idx, alt, altAdv, res, cand >>
            ELSE /\ IF opt < lineStart
                       THEN /\ res' = "invalid"
                            /\ UNCHANGED << idx, alt, altAdv, cand >>
                       ELSE /\ LET r == FillResult(scen, runs, idx, lineStart, opt, alt, altAdv) IN
                                 /\ idx' = r.idx
                                 /\ alt' = r.alt
                                 /\ altAdv' = r.adv
                                 /\ IF r.idx > Len(runs)
                                       THEN /\ res' = "invalid"
                                            /\ cand' = << >>
                                       ELSE /\ LET run == runs[r.idx] IN
                                                 LET e == opt + 1 IN
                                                   LET a == IF lineStart > run.off THEN lineStart ELSE run.off IN
                                                     IF e < run.end /\ e > run.off /\ e \notin scen.cb
                                                        THEN /\ res' = "invalid"
                                                             /\ cand' = cand
                                                        ELSE /\ LET w == r.adv + AdvSpaceAwareT(scen, a, e, r.alt = << >>) IN
                                                                  /\ cand' = << a, e >>
                                                                  /\ IF w > maxW
                                                                        THEN /\ res' = IF hasBest THEN "newLineBeforeBreak" ELSE "cannotFit"
                                                                        ELSE /\ IF truncating /\ w > truncW
                                                                                   THEN /\ res' = (IF e = scen.n /\ ~scen.cont THEN "endLine" ELSE "truncated")
                                                                                   ELSE /\ res' = "fits"
                 /\ pc' = "w2"
                 /\ UNCHANGED << ldone, phase >>
      /\ UNCHANGED << scen, runs, wbs, gbs, lineStart, more, left, wi, gi, 
                      unusedW, unusedWReq, prevW, isUnusedW, unusedG, 
                      isUnusedG, saved, altS, altAdvS, best, hasBest, lines, 
                      truncatedCount, opt, optReq, ok, truncating, maxW, 
                      truncW, steps >>

w2 == /\ pc = "w2"
      /\ IF res = "invalid"
            THEN /\ alt' = altS
                 /\ altAdv' = altAdvS
                 /\ idx' = saved
                 /\ IF FixInvalid
                       THEN /\ unusedW' = prevW
                       ELSE /\ TRUE
                            /\ UNCHANGED unusedW
                 /\ UNCHANGED << isUnusedW, best, hasBest, ldone, phase >>
            ELSE /\ IF res = "fits"
                       THEN /\ best' = alt \o << cand >>
                            /\ hasBest' = TRUE
                            /\ IF optReq
                                  THEN /\ ldone' = FALSE
                                       /\ phase' = "end"
                                  ELSE /\ TRUE
                                       /\ UNCHANGED << ldone, phase >>
                            /\ UNCHANGED << isUnusedW, idx, alt, altAdv >>
                       ELSE /\ IF res = "endLine"
                                  THEN /\ best' = alt \o << cand >>
                                       /\ hasBest' = TRUE
                                       /\ ldone' = TRUE
                                       /\ phase' = "end"
                                       /\ UNCHANGED << isUnusedW, idx, alt, 
                                                       altAdv >>
                                  ELSE /\ IF res = "truncated"
                                             THEN /\ IF ~FixTrunc /\ ~hasBest
                                                        THEN /\ best' = alt
                                                             /\ hasBest' = (Len(alt) > 0)
                                                        ELSE /\ TRUE
                                                             /\ UNCHANGED << best, 
                                                                             hasBest >>
                                                  /\ IF scen.policy = Never
                                                        THEN /\ ldone' = TRUE
                                                             /\ phase' = "end"
                                                        ELSE /\ phase' = "graph0"
                                                             /\ ldone' = ldone
                                                  /\ UNCHANGED << isUnusedW, 
                                                                  idx, alt, 
                                                                  altAdv >>
                                             ELSE /\ IF res = "newLineBeforeBreak"
                                                        THEN /\ alt' = altS
                                                             /\ altAdv' = altAdvS
                                                             /\ idx' = saved
                                                             /\ isUnusedW' = TRUE
                                                             /\ IF scen.policy = Never \/ (scen.policy = WhenNec /\ ~truncating)
                                                                   THEN /\ ldone' = FALSE
                                                                        /\ phase' = "end"
                                                                   ELSE /\ phase' = "graph0"
                                                                        /\ ldone' = ldone
                                                             /\ UNCHANGED << best, 
                                                                             hasBest >>
                                                        ELSE /\ IF scen.policy = Never
                                                                   THEN /\ IF truncating
                                                                              THEN /\ ldone' = TRUE
                                                                                   /\ phase' = "end"
                                                                                   /\ UNCHANGED << best, 
                                                                                                   hasBest >>
                                                                              ELSE /\ best' = alt \o << cand >>
                                                                                   /\ hasBest' = TRUE
                                                                                   /\ ldone' = FALSE
                                                                                   /\ phase' = "end"
                                                                   ELSE /\ phase' = "graph0"
                                                                        /\ UNCHANGED << best, 
                                                                                        hasBest, 
                                                                                        ldone >>
                                                             /\ UNCHANGED << isUnusedW, 
                                                                             idx, 
                                                                             alt, 
                                                                             altAdv >>
                 /\ UNCHANGED unusedW
      /\ pc' = "loop"
      /\ UNCHANGED << scen, runs, wbs, gbs, lineStart, more, left, wi, gi, 
                      unusedWReq, prevW, unusedG, isUnusedG, saved, altS, 
                      altAdvS, lines, truncatedCount, opt, optReq, ok, res, 
                      cand, truncating, maxW, truncW, steps >>

g1 == /\ pc = "g1"
      /\ IF ~ok
            THEN /\ ldone' = FALSE
                 /\ phase' = "end"
                 /\ pc' = "loop"
                 /\ UNCHANGED << idx, alt, altAdv, res, cand >>
            ELSE /\ IF opt < lineStart
                       THEN /\ res' = "invalid"
                            /\ UNCHANGED << idx, alt, altAdv, cand >>
                       ELSE /\ LET r == FillResult(scen, runs, idx, lineStart, opt, alt, altAdv) IN
                                 /\ idx' = r.idx
                                 /\ alt' = r.alt
                                 /\ altAdv' = r.adv
                                 /\ IF r.idx > Len(runs)
                                       THEN /\ res' = "invalid"
                                            /\ cand' = << >>
                                       ELSE /\ LET run == runs[r.idx] IN
                                                 LET e == opt + 1 IN
                                                   LET a == IF lineStart > run.off THEN lineStart ELSE run.off IN
                                                     IF e < run.end /\ e > run.off /\ e \notin scen.cb
                                                        THEN /\ res' = "invalid"
                                                             /\ cand' = cand
                                                        ELSE /\ LET w == r.adv + AdvSpaceAwareT(scen, a, e, r.alt = << >>) IN
                                                                  /\ cand' = << a, e >>
                                                                  /\ IF w > maxW
                                                                        THEN /\ res' = IF hasBest THEN "newLineBeforeBreak" ELSE "cannotFit"
                                                                        ELSE /\ IF truncating /\ w > truncW
                                                                                   THEN /\ res' = (IF e = scen.n /\ ~scen.cont THEN "endLine" ELSE "truncated")
                                                                                   ELSE /\ res' = "fits"
                 /\ pc' = "g2"
                 /\ UNCHANGED << ldone, phase >>
      /\ UNCHANGED << scen, runs, wbs, gbs, lineStart, more, left, wi, gi, 
                      unusedW, unusedWReq, prevW, isUnusedW, unusedG, 
                      isUnusedG, saved, altS, altAdvS, best, hasBest, lines, 
                      truncatedCount, opt, optReq, ok, truncating, maxW, 
                      truncW, steps >>

g2 == /\ pc = "g2"
      /\ IF res = "invalid"
            THEN /\ alt' = altS
                 /\ altAdv' = altAdvS
                 /\ idx' = saved
                 /\ UNCHANGED << isUnusedW, isUnusedG, best, hasBest, ldone, 
                                 phase >>
            ELSE /\ IF res = "fits"
                       THEN /\ best' = alt \o << cand >>
                            /\ hasBest' = TRUE
                            /\ isUnusedW' = TRUE
                            /\ UNCHANGED << isUnusedG, idx, alt, altAdv, ldone, 
                                            phase >>
                       ELSE /\ IF res = "endLine"
                                  THEN /\ best' = alt \o << cand >>
                                       /\ hasBest' = TRUE
                                       /\ ldone' = TRUE
                                       /\ phase' = "end"
                                       /\ UNCHANGED << isUnusedW, isUnusedG, 
                                                       idx, alt, altAdv >>
                                  ELSE /\ IF res = "truncated"
                                             THEN /\ IF ~hasBest
                                                        THEN /\ best' = alt
                                                             /\ hasBest' = (Len(alt) > 0)
                                                        ELSE /\ TRUE
                                                             /\ UNCHANGED << best, 
                                                                             hasBest >>
                                                  /\ ldone' = TRUE
                                                  /\ phase' = "end"
                                                  /\ UNCHANGED << isUnusedW, 
                                                                  isUnusedG, 
                                                                  idx, alt, 
                                                                  altAdv >>
                                             ELSE /\ IF res = "newLineBeforeBreak"
                                                        THEN /\ alt' = altS
                                                             /\ altAdv' = altAdvS
                                                             /\ idx' = saved
                                                             /\ isUnusedW' = TRUE
                                                             /\ isUnusedG' = TRUE
                                                             /\ ldone' = FALSE
                                                             /\ phase' = "end"
                                                             /\ UNCHANGED << best, 
                                                                             hasBest >>
                                                        ELSE /\ IF truncating
                                                                   THEN /\ ldone' = TRUE
                                                                        /\ phase' = "end"
                                                                        /\ UNCHANGED << isUnusedW, 
                                                                                        best, 
                                                                                        hasBest >>
                                                                   ELSE /\ best' = alt \o << cand >>
                                                                        /\ hasBest' = TRUE
                                                                        /\ isUnusedW' = TRUE
                                                                        /\ ldone' = FALSE
                                                                        /\ phase' = "end"
                                                             /\ UNCHANGED << isUnusedG, 
                                                                             idx, 
                                                                             alt, 
                                                                             altAdv >>
      /\ pc' = "loop"
      /\ UNCHANGED << scen, runs, wbs, gbs, lineStart, more, left, wi, gi, 
                      unusedW, unusedWReq, prevW, unusedG, saved, altS, 
                      altAdvS, lines, truncatedCount, opt, optReq, ok, res, 
                      cand, truncating, maxW, truncW, steps >>

post == /\ pc = "post"
        /\ IF Len(best) > 0
              THEN /\ lineStart' = best[Len(best)][2]
              ELSE /\ TRUE
                   /\ UNCHANGED lineStart
        /\ pc' = "post2"
        /\ UNCHANGED << scen, runs, wbs, gbs, more, left, wi, gi, unusedW, 
                        unusedWReq, prevW, isUnusedW, unusedG, isUnusedG, idx, 
                        saved, alt, altAdv, altS, altAdvS, best, hasBest, 
                        lines, truncatedCount, opt, optReq, ok, res, cand, 
                        ldone, truncating, maxW, truncW, phase, steps >>

post2 == /\ pc = "post2"
         /\ LET hitZero == (scen.trunc > 0 /\ left - 1 = 0) IN
              /\ IF scen.trunc > 0
                    THEN /\ left' = left - 1
                    ELSE /\ TRUE
                         /\ left' = left
              /\ ldone' = (ldone \/ lineStart >= scen.n \/ hitZero)
              /\ IF hitZero
                    THEN /\ truncatedCount' = scen.n - lineStart
                    ELSE /\ TRUE
                         /\ UNCHANGED truncatedCount
         /\ pc' = "post3"
         /\ UNCHANGED << scen, runs, wbs, gbs, lineStart, more, wi, gi, 
                         unusedW, unusedWReq, prevW, isUnusedW, unusedG, 
                         isUnusedG, idx, saved, alt, altAdv, altS, altAdvS, 
                         best, hasBest, lines, opt, optReq, ok, res, cand, 
                         truncating, maxW, truncW, phase, steps >>

post3 == /\ pc = "post3"
         /\ lines' = Append(lines, [pieces |-> best, width |-> scen.width, lastTrunc |-> (scen.trunc > 0 /\ left = 0),
                                    hasTruncator |-> (scen.trunc > 0 /\ left = 0 /\ (truncatedCount > 0 \/ scen.cont))])
         /\ IF ldone
               THEN /\ more' = FALSE
               ELSE /\ TRUE
                    /\ more' = more
         /\ pc' = "nextline"
         /\ UNCHANGED << scen, runs, wbs, gbs, lineStart, left, wi, gi, 
                         unusedW, unusedWReq, prevW, isUnusedW, unusedG, 
                         isUnusedG, idx, saved, alt, altAdv, altS, altAdvS, 
                         best, hasBest, truncatedCount, opt, optReq, ok, res, 
                         cand, ldone, truncating, maxW, truncW, phase, steps >>

(* Allow infinite stuttering to prevent deadlock on termination. *)
Terminating == pc = "Done" /\ UNCHANGED vars

Next == s1 \/ s2 \/ s3 \/ s4 \/ s5 \/ nextline \/ loop \/ w1 \/ w2 \/ g1
           \/ g2 \/ post \/ post2 \/ post3
           \/ Terminating

Spec == Init /\ [][Next]_vars

Termination == <>(pc = "Done")

\* END TRANSLATION

AllLines(P(_, _, _)) == \A k \in 1..Len(lines) : P(scen, lines, k)
InvContig == pc = "Done" => \A k \in 1..Len(lines) : Contig(lines, k)
InvCover == pc = "Done" => LineEndOf(lines, Len(lines)) + truncatedCount = scen.n
InvNonEmpty == pc = "Done" => \A k \in 1..Len(lines) : NonEmpty(lines, k)
InvLegalEnd == pc = "Done" => \A k \in 1..Len(lines) : LegalEnd(scen, lines, k)
InvMandatory == pc = "Done" => \A k \in 1..Len(lines) : Mandatory(scen, lines, k)
InvFits == pc = "Done" => \A k \in 1..Len(lines) : Fits(scen, lines, k)
InvGreedy == pc = "Done" => \A k \in 1..Len(lines) : Greedy(scen, lines, k)
InvTruncCount == pc = "Done" => (scen.trunc > 0 => Len(lines) <= scen.trunc)
InvSteps == steps < 200
=============================================================================
