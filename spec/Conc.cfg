SPECIFICATION Spec
CONSTANTS G = 3
  L = 3
INVARIANT SeqEquiv
INVARIANT Emit
CHECK_DEADLOCK FALSE
