------------------------------ MODULE UAX29 ------------------------------
EXTENDS Naturals, Sequences

(* ---------------- grapheme clusters: tuples [c, ep] ---------------- *)
RECURSIVE GRI(_, _)
GRI(s, i) == IF i >= 1 /\ s[i].c = "RI" THEN 1 + GRI(s, i - 1) ELSE 0

(* ExtPict Extend* ending at i *)
RECURSIVE PictExt(_, _)
PictExt(s, i) == IF i < 1 THEN FALSE ELSE IF s[i].ep THEN TRUE ELSE IF s[i].c = "EX" THEN PictExt(s, i - 1) ELSE FALSE

GBreak(s, i) ==
  LET a == s[i].c b == s[i + 1].c IN
  IF a = "CR" /\ b = "LF" THEN 0
  ELSE IF a \in {"CN", "CR", "LF"} \/ b \in {"CN", "CR", "LF"} THEN 1
  ELSE IF a = "L" /\ b \in {"L", "V", "LV", "LVT"} THEN 0
  ELSE IF a \in {"LV", "V"} /\ b \in {"V", "T"} THEN 0
  ELSE IF a \in {"LVT", "T"} /\ b = "T" THEN 0
  ELSE IF b \in {"EX", "ZWJ"} THEN 0
  ELSE IF b = "SM" THEN 0
  ELSE IF a = "PP" THEN 0
  ELSE IF a = "ZWJ" /\ s[i + 1].ep /\ PictExt(s, i - 1) THEN 0
  ELSE IF a = "RI" /\ b = "RI" /\ GRI(s, i) % 2 = 1 THEN 0
  ELSE 1

Graphemes(s) == [i \in 0..Len(s) |-> IF i = 0 \/ i = Len(s) THEN 1 ELSE GBreak(s, i)]

(* ---------------- words: tuples [c, ep, zwj, cr, lf] ---------------- *)
(* WB4: skip EF (Extend|Format|ZWJ) except after sot / NL *)
WSkipped(s, i) == s[i].c = "EF" /\ i > 1 /\ s[i - 1].c # "NL"
\* note: an EF following a skipped EF whose base is NL: base NL EF EF: first EF not skipped (after NL), second EF follows an EF -> skipped

RECURSIVE WRed(_, _)
WRed(s, i) == IF i > Len(s) THEN << >> ELSE IF WSkipped(s, i) THEN WRed(s, i + 1) ELSE << i >> \o WRed(s, i + 1)

RECURSIVE WRI(_, _)
WRI(RC, k) == IF k >= 1 /\ RC[k] = "RI" THEN 1 + WRI(RC, k - 1) ELSE 0

AHL == {"AL", "HL"}
MNLQ == {"MNL", "SQ"}

WPair(RC, k) ==
  LET a == RC[k] b == RC[k + 1]
      n == Len(RC)
      c == IF k + 2 <= n THEN RC[k + 2] ELSE ""
      p == IF k >= 2 THEN RC[k - 1] ELSE ""
  IN
  IF a \in AHL /\ b \in AHL THEN 0                                        \* WB5
  ELSE IF a \in AHL /\ b \in ({"ML"} \cup MNLQ) /\ c \in AHL THEN 0       \* WB6
  ELSE IF p \in AHL /\ a \in ({"ML"} \cup MNLQ) /\ b \in AHL THEN 0       \* WB7
  ELSE IF a = "HL" /\ b = "SQ" THEN 0                                     \* WB7a
  ELSE IF a = "HL" /\ b = "DQ" /\ c = "HL" THEN 0                         \* WB7b
  ELSE IF p = "HL" /\ a = "DQ" /\ b = "HL" THEN 0                         \* WB7c
  ELSE IF a = "NU" /\ b = "NU" THEN 0                                     \* WB8
  ELSE IF a \in AHL /\ b = "NU" THEN 0                                    \* WB9
  ELSE IF a = "NU" /\ b \in AHL THEN 0                                    \* WB10
  ELSE IF p = "NU" /\ a \in ({"MN"} \cup MNLQ) /\ b = "NU" THEN 0         \* WB11
  ELSE IF a = "NU" /\ b \in ({"MN"} \cup MNLQ) /\ c = "NU" THEN 0         \* WB12
  ELSE IF a = "KA" /\ b = "KA" THEN 0                                     \* WB13
  ELSE IF a \in (AHL \cup {"NU", "KA", "ENL"}) /\ b = "ENL" THEN 0        \* WB13a
  ELSE IF a = "ENL" /\ b \in (AHL \cup {"NU", "KA"}) THEN 0               \* WB13b
  ELSE IF a = "RI" /\ b = "RI" /\ WRI(RC, k) % 2 = 1 THEN 0               \* WB15/16
  ELSE 1

Words(s) ==
  LET n == Len(s)
      RI == WRed(s, 1)
      RC == [k \in 1..Len(RI) |-> s[RI[k]].c]
      Rank == [i \in 0..n |-> Len(SelectSeq(RI, LAMBDA j : j <= i))]
      At(i) ==
        LET a == s[i] b == s[i + 1] IN
        IF a.cr /\ b.lf THEN 0                       \* WB3
        ELSE IF a.c = "NL" THEN 1                    \* WB3a
        ELSE IF b.c = "NL" THEN 1                    \* WB3b
        ELSE IF a.zwj /\ b.ep THEN 0                 \* WB3c
        ELSE IF a.c = "WS" /\ b.c = "WS" THEN 0      \* WB3d
        ELSE IF WSkipped(s, i + 1) THEN 0            \* WB4
        ELSE WPair(RC, Rank[i])
  IN [i \in 0..n |-> IF i = 0 \/ i = n THEN 1 ELSE At(i)]
=============================================================================
