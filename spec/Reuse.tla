-------------------------------- MODULE Reuse --------------------------------
(* Property specification for reusable objects (C13).                                         *)
(* An object of some kind is used through a history of operations. For every operation the     *)
(* harness records the digest of the result on the re-used object (d) and the digest the same   *)
(* call gives on freshly constructed objects in the same logical configuration (fd).            *)
(*   SameAsFresh : d = fd - the result depends only on the arguments of the call.               *)
(*   Stable      : a result returned earlier, re-digested now, is unchanged unless an operation *)
(*                 documented to invalidate it happened on the same object in between.          *)
(* Invalidation points (from the documentation of the types): a LineWrapper's lines end at the  *)
(* next Prepare / WrapParagraph; shaping.Segmenter.Split results at the next Split; the         *)
(* segmenter.Segmenter iterators at the next Init. Shaper outputs and face query results never. *)
EXTENDS Integers, Sequences, FiniteSets

Invalidates(kind, op) ==
  CASE kind = "wrap" -> op \in {"WrapParagraph", "Prepare"}
    [] kind = "split" -> op = "Split"
    [] kind = "seg" -> op = "Init"
    [] OTHER -> FALSE

(* state: epoch (number of invalidating operations so far), results (digest + epoch per step) *)
SameAsFresh(e) == e.d = e.fd
StillValid(results, epoch, i) == i \in DOMAIN results /\ results[i].epoch = epoch
Stable(results, epoch, e) == StillValid(results, epoch, e.step) => e.d = results[e.step].d
=============================================================================
