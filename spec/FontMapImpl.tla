----------------------------- MODULE FontMapImpl -----------------------------
(* Implementation model of fontscan.FontMap (C14, flow M): the candidate lists are built      *)
(* lazily behind a `built` flag that every database / query / script change resets, and       *)
(* answers are memoised in an LRU keyed by (families, aspect, script, rune) that only          *)
(* database changes clear. TLC checks that every answer the model can give is an answer the    *)
(* property spec FontMap.tla allows (Refines) and that the cache never holds a stale answer    *)
(* (CacheCoherent), over all histories of bounded length. Diagnostic: the verdict about the    *)
(* real code comes from FontMapV on recorded traces.                                           *)
EXTENDS FontMap, TLC
CONSTANT D
VARIABLES db, query, script, built, cands, lru, maxSize, last, steps

vars == <<db, query, script, built, cands, lru, maxSize, last, steps>>

A1 == [st |-> 1000, sy |-> 1, w |-> 400]
A2 == [st |-> 1000, sy |-> 2, w |-> 700]
Fonts == { [fam |-> "fa", asp |-> A1, runes |-> {1}, scripts |-> {"s1"}, ttf |-> TRUE],
           [fam |-> "fa", asp |-> A2, runes |-> {1, 2}, scripts |-> {"s1", "s2"}, ttf |-> TRUE],
           [fam |-> "fb", asp |-> A1, runes |-> {2}, scripts |-> {"s2"}, ttf |-> FALSE],
           [fam |-> "fb", asp |-> A1, runes |-> {1, 2}, scripts |-> {"s1", "s2"}, ttf |-> TRUE] }
QueriesM == { [fams |-> <<"fa">>, asp |-> A1], [fams |-> <<"fb", "fa">>, asp |-> A2], [fams |-> <<"fc">>, asp |-> [st |-> 0, sy |-> 0, w |-> 0]] }
NoQ == [fams |-> <<"">>, asp |-> [st |-> 0, sy |-> 0, w |-> 0]]

Init == /\ db = << >> /\ query = NoQ /\ script = "none" /\ built = FALSE /\ cands = << >>
        /\ lru = << >> /\ maxSize = 2 /\ last = [r |-> 0, got |-> 0, ok |-> TRUE] /\ steps = 0

Tick == steps < D /\ steps' = steps + 1

AddFace(f) == /\ Tick /\ db' = Append(db, f) /\ built' = FALSE /\ lru' = << >>
              /\ UNCHANGED <<query, script, cands, maxSize, last>>
SetQuery(q) == /\ Tick /\ query' = q /\ built' = FALSE /\ UNCHANGED <<db, script, cands, lru, maxSize, last>>
SetScript(s) == /\ Tick /\ script' = s /\ built' = FALSE /\ UNCHANGED <<db, query, cands, lru, maxSize, last>>
SetCache(k) == /\ Tick /\ maxSize' = k /\ UNCHANGED <<db, query, script, built, cands, lru, last>>

Key(r) == [q |-> query, s |-> script, r |-> r]
Find(k) == {i \in DOMAIN lru : lru[i].key = k}
RECURSIVE Trim(_, _)
Trim(s, k) == IF Len(s) > k THEN Trim(Tail(s), k) ELSE s

Resolve(r) ==
  /\ Tick /\ Len(db) > 0
  /\ LET k == Key(r) IN
     IF Find(k) # {}
     THEN LET i == CHOOSE j \in Find(k) : TRUE IN            \* cache hit: move to the most recent end
          /\ last' = [r |-> r, got |-> lru[i].val, ok |-> lru[i].val \in Allowed(db, query, script, r)]
          /\ lru' = SelectSeq(lru, LAMBDA e : e.key # k) \o << lru[i] >>
          /\ UNCHANGED <<built, cands>>
     ELSE LET c == IF built THEN cands ELSE Order(db, query, script)      \* buildCandidates
              cov == Covering(db, c, r)
              ans == IF Len(cov) > 0 THEN cov[1] ELSE 1                    \* firstFace
          IN /\ cands' = c /\ built' = TRUE
             /\ last' = [r |-> r, got |-> ans, ok |-> ans \in Allowed(db, query, script, r)]
             /\ lru' = Trim(Append(lru, [key |-> k, val |-> ans]), maxSize)
  /\ UNCHANGED <<db, query, script, maxSize>>

Next == \/ \E f \in Fonts : AddFace(f)
        \/ \E q \in QueriesM : SetQuery(q)
        \/ \E s \in {"s1", "s2"} : SetScript(s)
        \/ \E k \in {0, 1} : SetCache(k)
        \/ \E r \in {1, 2, 3} : Resolve(r)
Spec == Init /\ [][Next]_vars

(* every answer is allowed by the property spec under the state it was asked in *)
Refines == last.ok
(* no stale entry: each cached answer is still an allowed answer for its key under the current db *)
CacheCoherent == \A i \in DOMAIN lru : lru[i].val \in Allowed(db, lru[i].key.q, lru[i].key.s, lru[i].key.r)
(* the lazily built candidate list is the current one whenever the flag says so *)
BuiltFresh == built => cands = Order(db, query, script)
=============================================================================
