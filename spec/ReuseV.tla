------------------------------- MODULE ReuseV -------------------------------
(* Monitor for C13: events New(kind), Op(op, d, fd, p), Recheck(step, d).                      *)
EXTENDS Reuse, TLC, Json, IOUtils
VARIABLES l, kind, epoch, results, fails, stats
Trace == ndJsonDeserialize(IOEnv.VERIF_TRACE)
Init == l = 1 /\ kind = "none" /\ epoch = 0 /\ results = << >> /\ fails = {} /\ stats = [hist |-> 0, ops |-> 0, rechecks |-> 0, nontriv |-> 0]
Ev(n) == l <= Len(Trace) /\ Trace[l].ev = n
New == /\ Ev("New") /\ kind' = Trace[l].kind /\ epoch' = 0 /\ results' = << >>
       /\ stats' = [stats EXCEPT !.hist = @ + 1, !.nontriv = @ + Trace[l].keys]
       /\ UNCHANGED fails /\ l' = l + 1
Op == /\ Ev("Op")
      /\ LET e == Trace[l]
             ep == IF Invalidates(kind, e.op) THEN epoch + 1 ELSE epoch
             bad == (IF e.p # "ok" THEN {"Total"} ELSE {}) \cup (IF e.p = "ok" /\ ~SameAsFresh(e) THEN {"SameAsFresh"} ELSE {})
         IN /\ epoch' = ep
            /\ results' = Append(results, [d |-> e.rd, epoch |-> ep])
            /\ fails' = fails \cup {[line |-> l, pred |-> b] : b \in bad}
      /\ stats' = [stats EXCEPT !.ops = @ + 1] /\ UNCHANGED kind /\ l' = l + 1
Recheck == /\ Ev("Recheck")
           /\ fails' = fails \cup (IF Stable(results, epoch, Trace[l]) THEN {} ELSE {[line |-> l, pred |-> "Stable"]})
           /\ stats' = [stats EXCEPT !.rechecks = @ + 1]
           /\ UNCHANGED <<kind, epoch, results>> /\ l' = l + 1
Next == New \/ Op \/ Recheck
Keep == TLCSet(1, fails) /\ TLCSet(2, stats)
Post == /\ TLCGet("stats").diameter - 1 = Len(Trace)
        /\ JsonSerialize(IOEnv.VERIF_OUT, [n |-> Len(Trace), fails |-> TLCGet(1), stats |-> TLCGet(2)])
=============================================================================
