----------------------------- MODULE CSSMatchV -----------------------------
(* Trace validator for C15: event = {c: candidate aspects, q: request, r: indices retained    *)
(* by the real retainsBestMatches (0-based)}.                                                  *)
EXTENDS CSSMatch, TLC, Json, IOUtils
VARIABLES l, fails, nontriv
Trace == ndJsonDeserialize(IOEnv.VERIF_TRACE)
Init == l = 1 /\ fails = {} /\ nontriv = 0
Step == /\ l <= Len(Trace)
        /\ LET e == Trace[l]
               exp == Narrow(e.c, e.q)
               got == {e.r[i] + 1 : i \in DOMAIN e.r}
               q == Desired(e.q)
               bad == (IF got # exp THEN {"Narrow"} ELSE {})
                      \cup (IF got = {} \/ ~(got \subseteq DOMAIN e.c) \/ ~Uniform(e.c, got) THEN {"WellFormed"} ELSE {})
                      \cup (IF Len(e.r) # Cardinality(got) THEN {"NoDuplicates"} ELSE {})
                      \cup (IF e.p = "panic" THEN {"Total"} ELSE {})
           IN /\ fails' = fails \cup {[line |-> l, pred |-> b] : b \in bad}
              /\ nontriv' = nontriv + (IF \E i \in DOMAIN e.c : e.c[i].st = q.st /\ e.c[i].sy = q.sy /\ e.c[i].w = q.w THEN 0 ELSE 1)
        /\ l' = l + 1
Next == Step
Keep == TLCSet(1, fails) /\ TLCSet(2, nontriv)
Post == /\ TLCGet("stats").diameter - 1 = Len(Trace)
        /\ JsonSerialize(IOEnv.VERIF_OUT, [n |-> Len(Trace), fails |-> TLCGet(1), nontrivial |-> TLCGet(2)])
=============================================================================
