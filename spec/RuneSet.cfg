SPECIFICATION Spec
CONSTANTS D = 4
  Runes = {0, 31, 255, 256, 65535, 65536, 1114111}
INVARIANT Emit
CHECK_DEADLOCK FALSE
