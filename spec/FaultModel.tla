------------------------------ MODULE FaultModel ------------------------------
(* Fault model for font files (C09, flow G). An abstract font is a header, a directory of NT    *)
(* table entries [offset, length] and table bodies. A plan is one fault, or two faults on the     *)
(* directory, applied to the bytes of a real font by the harness:                                 *)
(*   Truncate(where, ti)          cut the file at a table boundary / inside a table header         *)
(*   SetDir(ti, field, v)         overwrite a directory field with a boundary value                *)
(*   SetWord(ti, w, idx, v)       overwrite the idx-th 16/32-bit word of the first 64 table bytes  *)
(*   SwapBodies(t1, t2)           exchange the directory entries' offset/length                    *)
(*   NumTables(v)                 lie about the number of tables                                   *)
(*   GlyphByte / SetByte / SbixDupe   deeper faults, see below                                      *)
(* TLC enumerates every single fault and every pair of directory faults on the first PT tables.   *)
EXTENDS Integers, Sequences, TLC, Json
CONSTANTS NT, PT
VARIABLES plan, stage

DirVals == {"0", "1", "max", "size-1", "size", "size+1", "big", "half"}
WordVals == {"0", "1", "max", "mid", "hi"}
Truncs == {[k |-> "trunc", where |-> w, ti |-> t] : w \in {"tstart", "thdr", "tmid", "tend", "dirent"}, t \in 1..NT}
          \cup {[k |-> "trunc", where |-> w, ti |-> 0] : w \in {"empty", "magic", "hdr", "quarter", "half", "last"}}
SetDirs(T) == {[k |-> "setdir", ti |-> t, field |-> f, v |-> v] : t \in T, f \in {"offset", "length"}, v \in DirVals}
SetWords == {[k |-> "setword", ti |-> t, w |-> w, idx |-> i, v |-> v] : t \in 1..NT, w \in {16, 32}, i \in 0..23, v \in WordVals}
Swaps == {[k |-> "swap", t1 |-> a, t2 |-> b] : a \in 1..PT, b \in 1..NT}
Nums == {[k |-> "numtables", v |-> v] : v \in {"0", "1", "count+1", "max"}}
(* deeper, format-aware faults: bytes inside the first glyph records of 'glyf', bytes spread over     *)
(* every table, and 'dupe' reference graphs among the first bitmap glyphs of an 'sbix' strike          *)
GlyphBytes == {[k |-> "glyphbyte", gi |-> g, idx |-> i, v |-> v] : g \in 1..10, i \in 0..39, v \in {"0", "5", "mid8", "max8"}}
SpreadBytes == {[k |-> "setbyte", ti |-> t, frac |-> f, off |-> o, v |-> v] : t \in 1..NT, f \in 1..7, o \in 0..3, v \in {"0", "max8"}}
SbixDupes == {[k |-> "sbixdupe", t1 |-> a, t2 |-> b, t3 |-> c] : a \in 0..3, b \in 0..3, c \in 0..3}      \* glyph i of the first sbix strike becomes a "dupe" of glyph t_i (0 = unchanged); the harness first re-cuts the data of glyphs 1..3 into 10-byte records
Single == Truncs \cup SetDirs(1..NT) \cup SetWords \cup Swaps \cup Nums \cup GlyphBytes \cup SpreadBytes \cup SbixDupes

Init == plan = << >> /\ stage = 0
First == /\ stage = 0 /\ \E f \in Single : plan' = << f >> /\ stage' = 1
Second == /\ stage = 1 /\ plan[1].k = "setdir" /\ plan[1].ti \in 1..PT
          /\ \E g \in SetDirs(1..PT) : (g.ti > plan[1].ti \/ (g.ti = plan[1].ti /\ g.field # plan[1].field /\ plan[1].field = "offset"))
                                        /\ plan' = Append(plan, g)
          /\ stage' = 2
Next == First \/ Second
Spec == Init /\ [][Next]_<<plan, stage>>
Emit == stage >= 1 => PrintT("H|" \o ToJson(plan))
=============================================================================
