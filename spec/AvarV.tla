-------------------------------- MODULE AvarV --------------------------------
(* Monitor for C10 (normalized coordinates): one event per (variable face, coordinate vector):   *)
(*   fvar, avar = raw tables as 16-bit words (avar = << >> when absent)                           *)
(*   v = design coordinates in units of 1/64, got = Font.NormalizeVariations(v / 64)              *)
EXTENDS Avar, TLC, Json, IOUtils
VARIABLES l, fails, stats
Trace == ndJsonDeserialize(IOEnv.VERIF_TRACE)
Init == l = 1 /\ fails = {} /\ stats = [n |-> 0, axes |-> 0, nontriv |-> 0, withavar |-> 0, skipped |-> 0]
Step == /\ l <= Len(Trace)
        /\ LET e == Trace[l]
               na == AxisCount(e.fvar)
               J == {i \in 1..na : AxisJudged(e.fvar, i) /\ MapWellFormed(SegMap(e.avar, i))}
               bad == IF Len(e.got) # na THEN {0} ELSE {i \in J : e.got[i] \notin Accepted(e.fvar, e.avar, i, e.v[i])}
           IN /\ fails' = fails \cup {[line |-> l, pred |-> "Normalized", axis |-> i] : i \in bad}
              /\ stats' = [stats EXCEPT !.n = @ + 1, !.axes = @ + Cardinality(J), !.skipped = @ + (na - Cardinality(J)),
                                         !.nontriv = @ + (IF \E i \in J : e.got[i] \notin {0, 16384, -16384} THEN 1 ELSE 0),
                                         !.withavar = @ + (IF \E i \in J : Len(SegMap(e.avar, i)) > 3 THEN 1 ELSE 0)]
        /\ l' = l + 1
Next == Step
Keep == TLCSet(1, fails) /\ TLCSet(2, stats)
Post == /\ TLCGet("stats").diameter - 1 = Len(Trace)
        /\ JsonSerialize(IOEnv.VERIF_OUT, [n |-> Len(Trace), fails |-> TLCGet(1), stats |-> TLCGet(2)])
=============================================================================
