------------------------------- MODULE HBBuffer -------------------------------
(* Implementation model of the in/out protocol of harfbuzz.Buffer during a substitution pass    *)
(* (C18 unsafe-to-break flags, C01 monotone clusters): the primitive operations of buffer.go     *)
(* - nextGlyph, skipGlyph, replaceGlyphIndex, replaceGlyphs, deleteGlyph, mergeClusters,         *)
(* unsafeToBreak, unsafeToBreakFromOutbuffer, swapBuffers, clearOutput - transcribed as           *)
(* functions on an abstract buffer state                                                           *)
(*     [info, out : sequences of glyphs [g, cl, fl],  idx : items consumed,  have : output mode]   *)
(* at cluster level MonotoneGraphemes. Positions are 0-based half-open ranges as in the Go code;  *)
(* element i of a Go slice s is s[i+1] here.                                                       *)
(*                                                                                               *)
(* The same operators are used three ways: (M) HBBufferMC composes them into passes (ligature,    *)
(* multiple substitution, deletion, contextual flagging) and TLC checks the two laws below over   *)
(* every pass of a small buffer; (G) tlc -simulate prints operation sequences; (R/V) HBBufferV    *)
(* re-evaluates the laws on the states the real harfbuzz.Buffer goes through when the sequences   *)
(* are replayed on it, and reports where the real state differs from the model (drift).           *)
EXTENDS Integers, Sequences, FiniteSets

INF == 1000000
Min2(a, b) == IF a < b THEN a ELSE b
Max2(a, b) == IF a > b THEN a ELSE b
SetMin(S) == CHOOSE m \in S : \A x \in S : m <= x
SetMax(S) == CHOOSE m \in S : \A x \in S : m >= x

(* GlyphInfo.setCluster: a glyph whose cluster changes takes the given flag *)
SetCl(r, c, m) == IF r.cl # c THEN [r EXCEPT !.cl = c, !.fl = m] ELSE r

(* Buffer.findMinCluster at a monotone cluster level: only the two ends are looked at *)
FindMin(s, start, end, init) ==
  IF start >= end THEN init ELSE Min2(init, Min2(s[start + 1].cl, s[end].cl))

(* Buffer.infosSetGlyphFlags *)
FlagSet(s, start, end, cluster) ==
  IF start >= end THEN {}
  ELSE LET cf == s[start + 1].cl
           cl == s[end].cl
       IN IF cluster # cf /\ cluster # cl THEN {i \in start..(end - 1) : s[i + 1].cl # cluster}
          ELSE IF cluster = cf THEN {i \in start..(end - 1) : \A j \in i..(end - 1) : s[j + 1].cl # cf}
          ELSE {i \in start..(end - 1) : \A j \in start..i : s[j + 1].cl # cl}
InfosSetFlags(s, start, end, cluster) ==
  LET F == FlagSet(s, start, end, cluster) IN [i \in DOMAIN s |-> IF (i - 1) \in F THEN [s[i] EXCEPT !.fl = TRUE] ELSE s[i]]

(* Buffer.setGlyphFlags(GlyphUnsafeToBreak, start, end, interior = true, fromOutBuffer) *)
SetGlyphFlags(st, start, end0, fromOut) ==
  LET end == Min2(end0, Len(st.info)) IN
  IF ~fromOut /\ end - start < 2 THEN st
  ELSE IF ~fromOut \/ ~st.have THEN
       [st EXCEPT !.info = InfosSetFlags(st.info, start, end, FindMin(st.info, start, end, INF))]
  ELSE LET c == FindMin(st.out, start, Len(st.out), FindMin(st.info, st.idx, end, INF)) IN
       [st EXCEPT !.out = InfosSetFlags(st.out, start, Len(st.out), c), !.info = InfosSetFlags(st.info, st.idx, end, c)]
UnsafeToBreak(st, start, end) == SetGlyphFlags(st, start, end, FALSE)
UnsafeToBreakFromOut(st, start, end) == SetGlyphFlags(st, start, end, TRUE)

(* Buffer.mergeClusters *)
MergeClusters(st, start0, end0) ==
  IF end0 - start0 < 2 THEN st
  ELSE LET s == st.info
           n == Len(s)
           cluster == SetMin({s[i + 1].cl : i \in start0..(end0 - 1)})
           \* extend end over the items of the last item's cluster
           end == IF cluster # s[end0].cl
                  THEN SetMax({e \in end0..n : \A j \in end0..(e - 1) : s[j + 1].cl = s[end0].cl})
                  ELSE end0
           \* extend start back to the cursor over the items of the first item's cluster
           start == IF cluster # s[start0 + 1].cl /\ st.idx <= start0
                    THEN SetMin({b \in st.idx..start0 : \A j \in b..(start0 - 1) : s[j + 1].cl = s[start0 + 1].cl})
                    ELSE start0
           startC == s[start + 1].cl
           \* if the cursor was reached, continue in the out-buffer
           k == IF st.idx = start /\ startC # cluster
                THEN SetMin({b \in 0..Len(st.out) : \A j \in b..(Len(st.out) - 1) : st.out[j + 1].cl = startC})
                ELSE Len(st.out)
       IN [st EXCEPT !.info = [i \in DOMAIN s |-> IF (i - 1) \in start..(end - 1) THEN SetCl(s[i], cluster, FALSE) ELSE s[i]],
                     !.out = [i \in DOMAIN st.out |-> IF (i - 1) >= k THEN SetCl(st.out[i], cluster, FALSE) ELSE st.out[i]]]

Cur(st) == st.info[st.idx + 1]
NextGlyph(st) == [st EXCEPT !.out = IF st.have THEN Append(@, Cur(st)) ELSE @, !.idx = @ + 1]
SkipGlyph(st) == [st EXCEPT !.idx = @ + 1]
ReplaceGlyphIndex(st, g) == [st EXCEPT !.out = Append(@, [Cur(st) EXCEPT !.g = g]), !.idx = @ + 1]
(* Buffer.replaceGlyphs(numIn, nil, {g, g+1}); idx + numIn <= Len(info), idx < Len(info) *)
ReplaceGlyphs(st, numIn, g) ==
  LET m == MergeClusters(st, st.idx, st.idx + numIn)
      o == Cur(m)
  IN [m EXCEPT !.out = @ \o << [o EXCEPT !.g = g], [o EXCEPT !.g = g + 1] >>, !.idx = @ + numIn]
(* Buffer.deleteGlyph *)
DeleteGlyph(st) ==
  LET s == st.info
      c == Cur(st).cl
      L == Len(st.out)
  IN IF (st.idx + 1 < Len(s) /\ c = s[st.idx + 2].cl) \/ (L # 0 /\ c = st.out[L].cl) THEN SkipGlyph(st)
     ELSE IF L # 0 THEN
          IF c < st.out[L].cl
          THEN LET old == st.out[L].cl
                   k == SetMin({b \in 0..L : \A j \in b..(L - 1) : st.out[j + 1].cl = old})
               IN SkipGlyph([st EXCEPT !.out = [i \in DOMAIN st.out |-> IF (i - 1) >= k THEN SetCl(st.out[i], c, Cur(st).fl) ELSE st.out[i]]])
          ELSE SkipGlyph(st)
     ELSE IF st.idx + 1 < Len(s) THEN SkipGlyph(MergeClusters(st, st.idx, st.idx + 2))
     ELSE SkipGlyph(st)
ClearOutput(st) == [st EXCEPT !.have = TRUE, !.out = << >>, !.idx = 0]
SwapBuffers(st) ==
  [info |-> IF st.have THEN st.out \o SubSeq(st.info, st.idx + 1, Len(st.info)) ELSE st.out, out |-> << >>, idx |-> 0, have |-> FALSE]

(* Buffer.mergeOutClusters *)
MergeOutClusters(st, start0, end0) ==
  IF end0 - start0 < 2 THEN st
  ELSE LET o == st.out
           n == Len(o)
           cluster == SetMin({o[i + 1].cl : i \in start0..(end0 - 1)})
           start == SetMin({b \in 0..start0 : \A j \in b..(start0 - 1) : o[j + 1].cl = o[start0 + 1].cl})
           end == SetMax({e \in end0..n : \A j \in end0..(e - 1) : o[j + 1].cl = o[end0].cl})
           endC == o[end].cl
           \* if the end of the out-buffer was reached, continue in the input
           k == IF end = n
                THEN SetMax({e \in st.idx..Len(st.info) : \A j \in st.idx..(e - 1) : st.info[j + 1].cl = endC})
                ELSE st.idx
       IN [st EXCEPT !.out = [i \in DOMAIN o |-> IF (i - 1) \in start..(end - 1) THEN SetCl(o[i], cluster, FALSE) ELSE o[i]],
                     !.info = [i \in DOMAIN st.info |-> IF (i - 1) >= st.idx /\ (i - 1) < k THEN SetCl(st.info[i], cluster, FALSE) ELSE st.info[i]]]
(* Buffer.moveTo: forward copies input items to the output; backward takes output items back to the    *)
(* input side (the consumed prefix of info is scratch space: when it is too short the input is shifted) *)
MoveTo(st, i) ==
  IF ~st.have THEN [st EXCEPT !.idx = i]
  ELSE LET outL == Len(st.out) IN
       IF outL < i THEN LET count == i - outL IN
            [st EXCEPT !.out = @ \o SubSeq(st.info, st.idx + 1, st.idx + count), !.idx = @ + count]
       ELSE IF outL > i THEN
            LET count == outL - i
                \* shiftForward(count - idx): the items from idx on move right, the gap keeps what was there
                shifted == IF st.idx < count
                           THEN LET d == count - st.idx IN
                                [info |-> [k \in 1..(Len(st.info) + d) |-> IF k <= st.idx + d THEN (IF k <= Len(st.info) THEN st.info[k] ELSE [g |-> 0, cl |-> 0, fl |-> FALSE]) ELSE st.info[k - d]],
                                 idx |-> count]
                           ELSE [info |-> st.info, idx |-> st.idx]
                nidx == shifted.idx - count
            IN [st EXCEPT !.info = [k \in DOMAIN shifted.info |-> IF k > nidx /\ k <= nidx + count THEN st.out[outL - count + (k - nidx)] ELSE shifted.info[k]],
                          !.idx = nidx, !.out = SubSeq(st.out, 1, outL - count)]
       ELSE st
(* Buffer.Reverse (output mode off) and Buffer.reverseClusters *)
Rev(s) == [i \in DOMAIN s |-> s[Len(s) + 1 - i]]
Reverse(st) == [st EXCEPT !.info = Rev(@)]
(* reverseGroups by equal cluster, no merging: each group is reversed in place, then the whole: the   *)
(* groups end up in reverse order, each keeping its internal order                                      *)
RECURSIVE GroupsOf(_)
GroupsOf(s) == IF s = << >> THEN << >>
               ELSE LET k == SetMax({e \in 1..Len(s) : \A j \in 1..e : s[j].cl = s[1].cl})
                    IN << SubSeq(s, 1, k) >> \o GroupsOf(SubSeq(s, k + 1, Len(s)))
RECURSIVE FlattenG(_)
FlattenG(g) == IF g = << >> THEN << >> ELSE Head(g) \o FlattenG(Tail(g))
ReverseClusters(st) == [st EXCEPT !.info = FlattenG(Rev(GroupsOf(@)))]

(* one primitive operation, by name (the vocabulary of the replay) *)
Apply(st, op, x, y) ==
  CASE op = "clearOutput" -> ClearOutput(st)
    [] op = "next" -> NextGlyph(st)
    [] op = "skip" -> SkipGlyph(st)
    [] op = "replaceIndex" -> ReplaceGlyphIndex(st, x)
    [] op = "replaceGlyphs" -> ReplaceGlyphs(st, x, y)
    [] op = "delete" -> DeleteGlyph(st)
    [] op = "merge" -> MergeClusters(st, x, y)
    [] op = "flag" -> UnsafeToBreak(st, x, y)
    [] op = "flagOut" -> UnsafeToBreakFromOut(st, x, y)
    [] op = "swap" -> SwapBuffers(st)
    [] op = "mergeOut" -> MergeOutClusters(st, x, y)
    [] op = "moveTo" -> MoveTo(st, x)
    [] op = "reverse" -> Reverse(st)
    [] op = "reverseClusters" -> ReverseClusters(st)

(* ---------------------------------------------------------------- the laws *)
(* the text of the buffer in processing order *)
Concat(st) == IF st.have THEN st.out \o SubSeq(st.info, st.idx + 1, Len(st.info)) ELSE st.info
Increasing(s) == \A i \in 1..(Len(s) - 1) : s[i].cl <= s[i + 1].cl
Decreasing(s) == \A i \in 1..(Len(s) - 1) : s[i].cl >= s[i + 1].cl
(* C01: a pass keeps monotone clusters monotone *)
Monotone(st, dir) == IF dir = "inc" THEN Increasing(Concat(st)) ELSE Decreasing(Concat(st))
MonotoneAny(st) == Increasing(Concat(st)) \/ Decreasing(Concat(st))
(* the cluster span of the items a flagging call covers: a dependency between those characters *)
DepOf(st, op, x, y) ==
  LET items == IF op = "flag" THEN {st.info[i + 1] : i \in x..(Min2(y, Len(st.info)) - 1)}
               ELSE {st.out[i + 1] : i \in x..(Len(st.out) - 1)} \cup {st.info[i + 1] : i \in st.idx..(Min2(y, Len(st.info)) - 1)}
  IN IF items = {} THEN [lo |-> 0, hi |-> 0] ELSE [lo |-> SetMin({r.cl : r \in items}), hi |-> SetMax({r.cl : r \in items})]
(* C18: as long as a text position p inside a dependency is still a cluster boundary, a glyph of   *)
(* that cluster carries the flag (propagateFlags later spreads it over the cluster)                *)
FlagsCover(st, deps) ==
  LET c == Concat(st) IN
  \A d \in deps : \A p \in (d.lo + 1)..d.hi :
     (\E i \in DOMAIN c : c[i].cl = p) => (\E i \in DOMAIN c : c[i].cl = p /\ c[i].fl)
=============================================================================
