------------------------------- MODULE RuneSet -------------------------------
(* The rune-set container behaves as a mathematical set (C11, last clause).                   *)
(* State: S. Actions Add(r), Delete(r). Observations after every action: Contains(p) for each  *)
(* probe rune p, Len(), serialize/deserialize round trip, includes() against derived sets.     *)
EXTENDS Integers, Sequences, FiniteSets, TLC, Json
CONSTANTS D, Runes
VARIABLES hist, S
Init == hist = << >> /\ S = {}
Add(r) == hist' = Append(hist, [op |-> "Add", r |-> r]) /\ S' = S \cup {r}
Delete(r) == hist' = Append(hist, [op |-> "Delete", r |-> r]) /\ S' = S \ {r}
Next == Len(hist) < D /\ \E r \in Runes : Add(r) \/ Delete(r)
Spec == Init /\ [][Next]_<<hist, S>>
(* flow G: print every history with the set the specification reaches *)
RECURSIVE SetToSeq(_)
SetToSeq(T) == IF T = {} THEN << >> ELSE LET x == CHOOSE y \in T : \A z \in T : y <= z IN << x >> \o SetToSeq(T \ {x})
Emit == Len(hist) >= 1 => PrintT("H|" \o ToJson([ops |-> hist, set |-> SetToSeq(S)]))
=============================================================================
