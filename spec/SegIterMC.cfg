SPECIFICATION Spec
CONSTANT N = 7
INVARIANT PartitionAtEnd
INVARIANT PrefixOk
PROPERTY EventuallyDone
CHECK_DEADLOCK FALSE
