SPECIFICATION Spec
CONSTANTS
  MaxN = 3
  MaxRuns = 2
  Policies = {"Never", "Always", "WhenNecessary"}
  Truncs = {0, 1, 2}
  FixInvalid = TRUE
  FixTrunc = TRUE
  FixFirstRun = TRUE
  LSs = {1}
CHECK_DEADLOCK FALSE
INVARIANT InvSteps
INVARIANT InvContig
INVARIANT InvCover
INVARIANT InvTruncCount
INVARIANT InvMandatory
INVARIANT InvNonEmpty
INVARIANT InvLegalEnd
INVARIANT InvFits
INVARIANT InvGreedy
