-------------------------------- MODULE Avar --------------------------------
(* Normalization of design coordinates of a variable font (C10: "normalized coordinates ...    *)
(* equal those of the reference"), written from the OpenType specification (fvar, avar), over   *)
(* the raw tables given as big-endian 16-bit words.                                             *)
(*   stage 1 (fvar): clamp to [min, max]; below the default (v - def) / (def - min), above it  *)
(*                   (v - def) / (max - def); the result in 2.14 fixed point                     *)
(*   stage 2 (avar): piecewise linear through the axis' (from, to) pairs                         *)
(* Design values are handled in units of 1/64 (16.16 values whose low 10 bits are zero; other    *)
(* axes are not judged), so that every product stays inside TLC's 32-bit integers. The rounding   *)
(* of a division is not fixed by the specification: a stage may differ by one unit of 2.14.        *)
EXTENDS Integers, Sequences, FiniteSets

W(w, b) == w[(b \div 2) + 1]
S16(x) == IF x >= 32768 THEN x - 65536 ELSE x
Fixed64(w, b) == S16(W(w, b)) * 64 + (W(w, b + 2) \div 1024)        \* 16.16 -> units of 1/64
Exact64(w, b) == W(w, b + 2) % 1024 = 0

(* ---- fvar *)
AxisCount(fv) == W(fv, 8)
AxisOff(fv, i) == W(fv, 4) + W(fv, 10) * (i - 1)
AxisMin(fv, i) == Fixed64(fv, AxisOff(fv, i) + 4)
AxisDef(fv, i) == Fixed64(fv, AxisOff(fv, i) + 8)
AxisMax(fv, i) == Fixed64(fv, AxisOff(fv, i) + 12)
AxisExact(fv, i) == Exact64(fv, AxisOff(fv, i) + 4) /\ Exact64(fv, AxisOff(fv, i) + 8) /\ Exact64(fv, AxisOff(fv, i) + 12)
AxisJudged(fv, i) == /\ AxisExact(fv, i) /\ AxisMin(fv, i) <= AxisDef(fv, i) /\ AxisDef(fv, i) <= AxisMax(fv, i)
                     /\ AxisMax(fv, i) - AxisMin(fv, i) < 131072                      \* * 16384 stays below 2^31

(* rounding to nearest of n / d (d > 0), halves away from zero *)
RoundDiv(n, d) == IF n >= 0 THEN (2 * n + d) \div (2 * d) ELSE -((2 * (-n) + d) \div (2 * d))
Clamp(v, lo, hi) == IF v < lo THEN lo ELSE IF v > hi THEN hi ELSE v
Stage1(fv, i, v) == LET c == Clamp(v, AxisMin(fv, i), AxisMax(fv, i))  d == AxisDef(fv, i) IN
                    IF c < d THEN RoundDiv((c - d) * 16384, d - AxisMin(fv, i))
                    ELSE IF c > d THEN RoundDiv((c - d) * 16384, AxisMax(fv, i) - d)
                    ELSE 0

(* ---- avar: the segment map of axis i as a sequence of <<from, to>> (2.14) *)
RECURSIVE MapOff(_, _)
MapOff(av, i) == IF i = 1 THEN 8 ELSE MapOff(av, i - 1) + 2 + 4 * W(av, MapOff(av, i - 1))
SegMap(av, i) == IF Len(av) < 4 \/ i > W(av, 6) THEN << >>
                 ELSE LET o == MapOff(av, i) IN [j \in 1..W(av, o) |-> << S16(W(av, o + 2 + 4 * (j - 1))), S16(W(av, o + 4 + 4 * (j - 1))) >>]
MapWellFormed(m) == \A j \in 1..(Len(m) - 1) : m[j][1] < m[j + 1][1] /\ m[j][2] <= m[j + 1][2]
Stage2(m, n) == IF Len(m) < 2 THEN n
                ELSE LET js == {j \in 2..Len(m) : n < m[j][1]} IN
                     IF js = {} \/ n < m[1][1] THEN n
                     ELSE LET j == CHOOSE x \in js : \A y \in js : x <= y IN
                          m[j - 1][2] + RoundDiv((n - m[j - 1][1]) * (m[j][2] - m[j - 1][2]), m[j][1] - m[j - 1][1])

Near(x) == {x - 1, x, x + 1}
Accepted(fv, av, i, v) == UNION {Near(Stage2(SegMap(av, i), n)) : n \in Near(Stage1(fv, i, v))}
=============================================================================
