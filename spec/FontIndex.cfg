SPECIFICATION Spec
CONSTANTS D = 4
  Paths = {"a.ttf", "sub/b.otf"}
  Contents = {1, 4, 9}
INVARIANT RefreshEqScratch
INVARIANT EntriesFaithful
INVARIANT CacheFaithful
INVARIANT Emit
CHECK_DEADLOCK FALSE
