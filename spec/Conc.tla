--------------------------------- MODULE Conc ---------------------------------
(* A parsed font shared by concurrent goroutines (C17).                                        *)
(* G goroutines each run a program over operations on a SHARED immutable font and PRIVATE        *)
(* objects (face, shaper, segmenter, font map). Phase "build" chooses the programs (flow G: with  *)
(* tlc -simulate each behaviour yields one random program set, printed when complete); phase      *)
(* "run" interleaves the steps in every possible order. The specification's claim: the result of  *)
(* a step is a function of the goroutine's own earlier steps only (SeqEquiv), because the only    *)
(* shared state is the immutable font - checked here as a sanity condition of the model; the      *)
(* evidence about the code comes from running the printed program sets under the race detector.   *)
EXTENDS Integers, Sequences, TLC, Json
CONSTANTS G, L
VARIABLES prog, pc, local, results, phase

Ops == { [op |-> "NewFace", f |-> f] : f \in 1..3 } \cup { [op |-> "SetVariations", w |-> w] : w \in {300, 900} }
       \cup { [op |-> "Shape", t |-> t] : t \in 1..2 } \cup { [op |-> "Extents", g |-> g] : g \in {3, 30} }
       \cup { [op |-> "Data", g |-> g] : g \in {3, 30} } \cup { [op |-> "Split", t |-> t] : t \in 1..2 }
       \cup { [op |-> "Resolve", r |-> r] : r \in {97, 1488} }

(* The sweep program: one fixed behaviour of a goroutine (static phase, then the same operations on *)
(* a varied face), run by several goroutines on every font of the corpus in turn so that every      *)
(* font's lazily-touched shared data is exercised concurrently, not only the fonts the random sets  *)
(* happen to select. It is printed for the driver (flow G) and must be a legal program.             *)
Sweep == << [op |-> "Shape", t |-> 1], [op |-> "Extents", g |-> 3], [op |-> "Data", g |-> 30],
            [op |-> "SetVariations", w |-> 900], [op |-> "Shape", t |-> 2], [op |-> "Extents", g |-> 30], [op |-> "Data", g |-> 3] >>
ASSUME \A i \in DOMAIN Sweep : Sweep[i] \in Ops
ASSUME PrintT("W|" \o ToJson(Sweep))

Init == /\ prog = [g \in 1..G |-> << >>] /\ pc = [g \in 1..G |-> 1] /\ local = [g \in 1..G |-> << >>]
        /\ results = [g \in 1..G |-> << >>] /\ phase = "build"
Build == /\ phase = "build"
         /\ \E g \in 1..G : /\ Len(prog[g]) < L
                            /\ \A h \in 1..G : Len(prog[h]) >= Len(prog[g])       \* fill level by level
                            /\ \E o \in Ops : prog' = [prog EXCEPT ![g] = Append(@, o)]
         /\ UNCHANGED <<pc, local, results, phase>>
Start == /\ phase = "build" /\ \A g \in 1..G : Len(prog[g]) = L
         /\ phase' = "run" /\ UNCHANGED <<prog, pc, local, results>>
(* the abstract result of a step: determined by the goroutine's private history *)
Digest(hist, o) == << hist, o >>
Step(g) == /\ phase = "run" /\ pc[g] <= L
           /\ results' = [results EXCEPT ![g] = Append(@, Digest(local[g], prog[g][pc[g]]))]
           /\ local' = [local EXCEPT ![g] = Append(@, prog[g][pc[g]])]
           /\ pc' = [pc EXCEPT ![g] = @ + 1]
           /\ UNCHANGED <<prog, phase>>
Next == Build \/ Start \/ \E g \in 1..G : Step(g)
Spec == Init /\ [][Next]_<<prog, pc, local, results, phase>>

Alone(g, i) == Digest(SubSeq(prog[g], 1, i - 1), prog[g][i])
SeqEquiv == \A g \in 1..G : \A i \in 1..Len(results[g]) : results[g][i] = Alone(g, i)
Emit == (phase = "run" /\ \A g \in 1..G : pc[g] = 1) => PrintT("H|" \o ToJson(prog))
=============================================================================
