--------------------------- MODULE CountClustersMC ---------------------------
(* Flow M for C01: a transcription of shaping.countClusters (rune and glyph counts derived     *)
(* from the cluster values of a monotone glyph sequence) model-checked against ShapeAPI's       *)
(* ClusterUniform and CountsSum for every monotone cluster sequence of <= MaxG glyphs over a     *)
(* run of <= MaxN runes, both reading directions.                                                *)
EXTENDS ShapeAPI, TLC
CONSTANTS MaxG, MaxN
VARIABLES cl, n, prog, phase

Init == cl = << >> /\ n \in 1..MaxN /\ prog \in {0, 1} /\ phase = "build"
(* build a monotone sequence starting at the run start (forward) / ending at it (backward) *)
Grow == /\ phase = "build" /\ Len(cl) < MaxG
        /\ \E c \in 0..(n - 1) :
             /\ (Len(cl) = 0 => (IF prog = 0 THEN c = 0 ELSE TRUE))
             /\ (Len(cl) > 0 => (IF prog = 0 THEN c >= cl[Len(cl)] ELSE c <= cl[Len(cl)]))
             /\ cl' = Append(cl, c)
        /\ UNCHANGED <<n, prog, phase>>
Done == /\ phase = "build" /\ Len(cl) >= 1
        /\ (prog = 1 => cl[Len(cl)] = 0)             \* the first rune of the run belongs to some cluster
        /\ phase' = "check" /\ UNCHANGED <<cl, n, prog>>
Next == Grow \/ Done
Spec == Init /\ [][Next]_<<cl, n, prog, phase>>

(* countClusters: for each group of equal cluster values, glyphs = size of the group, runes =   *)
(* distance to the next cluster value (forward) or to the previous one (backward), the run end    *)
(* standing in at the boundary                                                                    *)
NextDifferent(i) == LET S == {j \in (i + 1)..Len(cl) : cl[j] # cl[i]} IN IF S = {} THEN n ELSE cl[CHOOSE j \in S : \A k \in S : j <= k]
PrevDifferent(i) == LET S == {j \in 1..(i - 1) : cl[j] # cl[i]} IN IF S = {} THEN n ELSE cl[CHOOSE j \in S : \A k \in S : j >= k]
Counted == [i \in 1..Len(cl) |-> << 1, cl[i],
                                   IF prog = 0 THEN NextDifferent(i) - cl[i] ELSE PrevDifferent(i) - cl[i],
                                   Cardinality({j \in 1..Len(cl) : cl[j] = cl[i]}) >>]
Ev == [n |-> n, start |-> 0, end |-> n, prog |-> prog, g |-> Counted]
Laws == phase = "check" => (ClusterUniform(Ev) /\ CountsSum(Ev) /\ InRange(Ev) /\ Monotone(Ev))
=============================================================================
