--------------------------- MODULE FontMapGenPairs ---------------------------
(* Flow G for C14, query pairs: a cache in front of ResolveFace is transparent only if its key  *)
(* separates every two queries. Two fonts, then every ordered pair of family lists of length    *)
(* <= 2 over a name alphabet that is closed under concatenation ("vfa"+"bc" = "vfab"+"c": two   *)
(* different lists, the same characters, the same number of families), each followed by Resolve  *)
(* of the same rune, at rune-cache sizes 1 and 4096. FreshEq / Priority / Functional judge the    *)
(* answers (FontMapV).                                                                            *)
EXTENDS Integers, Sequences, TLC, Json
VARIABLE hist

Names == {"vfa", "vfab", "bc", "c"}
Asp == [st |-> 1000, sy |-> 1, w |-> 400]
Lists == { <<a>> : a \in Names } \cup { <<a, b>> : a \in Names, b \in Names }
Caches == { [op |-> "SetCache", k |-> k] : k \in {1, 4096} }
Adds == { [op |-> "AddFace", fam |-> f, asp |-> Asp, runes |-> <<97, 98>>, ttf |-> TRUE] : f \in Names }
Queries == { [op |-> "SetQuery", fams |-> fl, asp |-> Asp] : fl \in Lists }
Res == [op |-> "Resolve", r |-> 97]

Init == hist = << >>
Next == /\ Len(hist) < 7
        /\ \E o \in (CASE Len(hist) = 0 -> Caches
                       [] Len(hist) \in {1, 2} -> Adds
                       [] Len(hist) \in {3, 5} -> Queries
                       [] OTHER -> {Res}) :
             /\ (Len(hist) = 2 => o.fam # hist[2].fam)
             /\ (Len(hist) = 5 => o.fams # hist[4].fams)
             /\ hist' = Append(hist, o)
Spec == Init /\ [][Next]_hist
Emit == Len(hist) = 7 => PrintT("H|" \o ToJson(hist))
=============================================================================
