----------------------------- MODULE FontIndexV -----------------------------
(* Monitor for C16. The file-system actions are those of FontIndex.tla (re-stated on the        *)
(* monitor's own variables); observations of the real scanner are checked at Refresh / Load /   *)
(* Read events. Index entries are compared as [p, m, d] with d = digest of the footprints of     *)
(* the file; the digest of each content id is given by the Contents event (scanned alone).       *)
EXTENDS Integers, Sequences, FiniteSets, TLC, Json, IOUtils
VARIABLES l, fs, dig, saved, fails, stats
Trace == ndJsonDeserialize(IOEnv.VERIF_TRACE)
Init == l = 1 /\ fs = {} /\ dig = << >> /\ saved = {} /\ fails = {} /\ stats = [hist |-> 0, refresh |-> 0, reads |-> 0, nontriv |-> 0]
Ev(n) == l <= Len(Trace) /\ Trace[l].ev = n
SeqToSet(s) == {s[i] : i \in DOMAIN s}
Scratch == {[p |-> x.p, m |-> x.m, d |-> dig[x.c]] : x \in fs}
F(name, b) == IF b THEN {} ELSE {name}
Skip == UNCHANGED <<dig, saved, fails, stats>> /\ l' = l + 1

Contents == /\ Ev("Contents") /\ dig' = Trace[l].dig /\ UNCHANGED <<fs, saved, fails, stats>> /\ l' = l + 1
New == /\ Ev("New") /\ fs' = {} /\ saved' = {} /\ stats' = [stats EXCEPT !.hist = @ + 1] /\ UNCHANGED <<dig, fails>> /\ l' = l + 1
Write == /\ Ev("Write") /\ LET e == Trace[l] IN fs' = {x \in fs : x.p # e.p} \cup {[p |-> e.p, c |-> e.c, m |-> e.m]}
         /\ Skip
Remove == /\ Ev("Remove") /\ fs' = {x \in fs : x.p # Trace[l].p} /\ Skip
Touch == /\ Ev("Touch") /\ LET e == Trace[l] IN fs' = {IF x.p = e.p THEN [x EXCEPT !.m = e.m] ELSE x : x \in fs}
         /\ Skip
Rename == /\ Ev("Rename")
          /\ LET e == Trace[l] IN fs' = {x \in fs : x.p # e.p /\ x.p # e.q} \cup {[x EXCEPT !.p = e.q] : x \in {y \in fs : y.p = e.p}}
          /\ Skip
Refresh == /\ Ev("Refresh")
           /\ LET e == Trace[l]
                  inc == SeqToSet(e.inc)
                  scr == SeqToSet(e.scr)
                  bad == F("Total", e.p = "ok") \cup F("ScratchExact", scr = Scratch) \cup F("RefreshEqScratch", inc = scr)
                         \cup F("NoDuplicatePaths", Len(e.inc) = Cardinality({x.p : x \in inc}))
              IN /\ fails' = fails \cup {[line |-> l, pred |-> b] : b \in bad}
                 /\ stats' = [stats EXCEPT !.refresh = @ + 1, !.nontriv = @ + (IF e.reused >= 1 /\ e.rescanned >= 1 THEN 1 ELSE 0)]
           /\ UNCHANGED <<fs, dig, saved>> /\ l' = l + 1
Save == /\ Ev("Save") /\ saved' = SeqToSet(Trace[l].idx) /\ UNCHANGED <<fs, dig, fails, stats>> /\ l' = l + 1
Crash == /\ Ev("Crash") /\ UNCHANGED <<fs, dig, saved, fails, stats>> /\ l' = l + 1
(* Load of the cache file: complete file => exactly the saved index (RoundTrip); torn file =>    *)
(* an error or the saved index, never a panic, never something else                              *)
Load == /\ Ev("Load")
        /\ LET e == Trace[l]
               got == SeqToSet(e.idx)
               bad == F("TornSafe", e.res # "panic")
                      \cup (IF e.torn THEN F("TornWellFormed", e.res = "err" \/ got = saved) ELSE F("RoundTrip", e.res = "ok" /\ got = saved))
           IN fails' = fails \cup {[line |-> l, pred |-> b] : b \in bad}
        /\ UNCHANGED <<fs, dig, saved, stats>> /\ l' = l + 1
(* exhaustive truncation / corruption of one serialized index *)
Read == /\ Ev("Read")
        /\ LET e == Trace[l]
               bad == F("TornSafe", e.res # "panic")
                      \cup (IF e.kind \in {"full", "file"} THEN F("RoundTrip", e.res = "ok" /\ e.same) ELSE {})
                      \cup (IF e.kind = "prefix" THEN F("TornWellFormed", e.res = "err" \/ e.same) ELSE {})
                      \cup (IF e.res = "ok" THEN F("RebuildAfterRead", e.incd = e.scrd) ELSE {})
           IN fails' = fails \cup {[line |-> l, pred |-> b] : b \in bad}
        /\ stats' = [stats EXCEPT !.reads = @ + 1, !.nontriv = @ + (IF Trace[l].kind \notin {"full", "file"} THEN 1 ELSE 0)]
        /\ UNCHANGED <<fs, dig, saved>> /\ l' = l + 1
Next == Contents \/ New \/ Write \/ Remove \/ Touch \/ Rename \/ Refresh \/ Save \/ Crash \/ Load \/ Read
Keep == TLCSet(1, fails) /\ TLCSet(2, stats)
Post == /\ TLCGet("stats").diameter - 1 = Len(Trace)
        /\ JsonSerialize(IOEnv.VERIF_OUT, [n |-> Len(Trace), fails |-> TLCGet(1), stats |-> TLCGet(2)])
=============================================================================
