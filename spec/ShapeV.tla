-------------------------------- MODULE ShapeV --------------------------------
(* Monitor for C01 / C12: events S (one shaping call and its outcome) and SP (spacing applied   *)
(* to a run).                                                                                    *)
EXTENDS ShapeAPI, TLC, Json, IOUtils
G == INSTANCE Geometry
VARIABLES l, fails, stats
Trace == ndJsonDeserialize(IOEnv.VERIF_TRACE)
Init == l = 1 /\ fails = {} /\ stats = [calls |-> 0, nontriv |-> 0, geo |-> 0, sp |-> 0]
F(name, b) == IF b THEN {} ELSE {name}
(* TLC integers are 32-bit, like fixed.Int26_6: the advance sum of 16 000 glyphs at 4096 px wraps   *)
(* in Go and overflows in TLC, so AdvSum is evaluated only where the mathematical sum fits.       *)
(* The guard is on the recorded values (not on the requested size: a run shaped at a stale scale   *)
(* must still be judged by the other predicates instead of stopping the validator).               *)
AbsI(x) == IF x < 0 THEN 0 - x ELSE x
MaxAdv(e) == FoldLeft(LAMBDA acc, g : IF AbsI(IF e.vert THEN g[6] ELSE g[5]) > acc THEN AbsI(IF e.vert THEN g[6] ELSE g[5]) ELSE acc, 0, e.g)
SumFits(e) == Len(e.g) = 0 \/ MaxAdv(e) \div 64 + 1 <= 30000000 \div Len(e.g)
SBad(e) ==
  IF ~Returned(e) THEN {"Returned"}
  ELSE IF e.api = "hb" THEN
       F("PosSync", PosSync(e)) \cup F("Budget", Budget(e))
       \cup (IF BoundsInside(e) THEN F("InRange", InRange(e)) \cup (IF e.lvl <= 1 THEN F("Monotone", Monotone(e)) \cup F("StartCovered", StartCovered(e)) ELSE {}) ELSE {})
  ELSE F("Range", RuneRange(e)) \cup F("Budget", Budget(e))
       \cup (IF BoundsInside(e) THEN F("InRange", InRange(e)) \cup F("Monotone", Monotone(e)) \cup F("ClusterUniform", ClusterUniform(e)) \cup F("CountsSum", CountsSum(e)) ELSE {})
       \cup (IF SumFits(e) THEN F("AdvSum", G!AdvSum(e)) ELSE {}) \cup F("CrossZero", G!CrossZero(e)) \cup F("BoundsEnclose", G!BoundsEnclose(e)) \cup F("BoundsTight", G!BoundsTight(e))
       \cup F("LineBounds", G!LineBounds(e))
       \cup (IF e.side THEN F("Rotation", G!Rotation(e)) ELSE {})
NonTrivial(e) == e.res = "ok" /\ Len(e.g) >= 1 /\ ((\E i \in DOMAIN e.g : Cl(e.g[i]) # Cl(e.g[1])) \/ \E i \in DOMAIN e.g : Len(e.g[i]) >= 4 /\ Rc(e.g[i]) # Gc(e.g[i]))
S == /\ l <= Len(Trace) /\ Trace[l].ev = "S"
     /\ LET e == Trace[l] IN
        /\ fails' = fails \cup {[line |-> l, pred |-> b] : b \in SBad(e)}
        /\ stats' = [stats EXCEPT !.calls = @ + 1, !.nontriv = @ + (IF NonTrivial(e) THEN 1 ELSE 0),
                                   !.geo = @ + (IF e.res = "ok" /\ e.api # "hb" /\ (e.vert \/ \E i \in DOMAIN e.g : Gc(e.g[i]) >= 2) THEN 1 ELSE 0)]
     /\ l' = l + 1
SP == /\ l <= Len(Trace) /\ Trace[l].ev = "SP"
      /\ LET e == Trace[l]
             bad == (IF e.kind = "word" THEN F("WordSpacing", G!WordSpacingOk(e)) ELSE F("LetterSpacing", G!LetterSpacingOk(e)))
                    \cup F("SpacingAdvSum", G!SpacingAdvSum(e))
         IN fails' = fails \cup {[line |-> l, pred |-> b] : b \in bad}
      /\ stats' = [stats EXCEPT !.sp = @ + 1] /\ l' = l + 1
Next == S \/ SP
Keep == TLCSet(1, fails) /\ TLCSet(2, stats)
Post == /\ TLCGet("stats").diameter - 1 = Len(Trace)
        /\ JsonSerialize(IOEnv.VERIF_OUT, [n |-> Len(Trace), fails |-> TLCGet(1), stats |-> TLCGet(2)])
=============================================================================
