--------------------------- MODULE FontMapGenSubs ---------------------------
(* Flow G for C14, substitution histories: two fonts (one named like a substitute of the queried  *)
(* family), a query naming a substituted and/or a generic family, then every sequence of up to     *)
(* T SetScript / Resolve operations. The answers must not depend on the history (FreshEq,         *)
(* Functional): the candidate lists are rebuilt on every SetScript.                                *)
EXTENDS Integers, Sequences, TLC, Json
CONSTANT T
VARIABLE hist

Asp == [st |-> 1000, sy |-> 1, w |-> 400]
Adds == { [op |-> "AddFace", fam |-> f, asp |-> Asp, runes |-> rs, ttf |-> TRUE] :
            f \in {"Nimbus Sans", "vfalpha", "DejaVu Serif"}, rs \in { <<97, 98>>, <<97, 1103>> } }
Queries == { [op |-> "SetQuery", fams |-> fl, asp |-> Asp] : fl \in { <<"Helvetica", "serif">>, <<"serif">>, <<"Helvetica">>, <<"sans-serif", "vfalpha">> } }
TailOps == { [op |-> "SetScript", s |-> s] : s \in {"Latn", "Cyrl"} } \cup { [op |-> "Resolve", r |-> r] : r \in {97, 98, 1103} }

Init == hist = << >>
Next == /\ Len(hist) < 3 + T
        /\ \E o \in (IF Len(hist) < 2 THEN Adds ELSE IF Len(hist) = 2 THEN Queries ELSE TailOps) :
             /\ (Len(hist) = 1 => o.fam # hist[1].fam)
             /\ hist' = Append(hist, o)
Spec == Init /\ [][Next]_hist
Emit == (Len(hist) >= 5 /\ hist[Len(hist)].op = "Resolve") => PrintT("H|" \o ToJson(hist))
=============================================================================
