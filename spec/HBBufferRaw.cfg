SPECIFICATION Spec
CONSTANTS
  N = 3
  Dir = "inc"
  MaxPasses = 1
  MaxFlags = 2
  Ops = {"lig", "mult", "raw"}
VIEW View
CHECK_DEADLOCK FALSE
INVARIANT InvMonotoneAny
