------------------------------- MODULE SfntV -------------------------------
(* Trace validator for C19. Event: tables (input: tag, bytes), out (file bytes), rb (what the  *)
(* real opentype.Loader returns per tag: bytes or "error"), tags (Loader.Tables()), before /    *)
(* after (images of each input slice including its spare capacity), p ("ok" | "panic").        *)
EXTENDS Sfnt, TLC, Json, IOUtils
VARIABLES l, fails, nontriv
Trace == ndJsonDeserialize(IOEnv.VERIF_TRACE)
Init == l = 1 /\ fails = {} /\ nontriv = 0
F(name, b) == IF b THEN {} ELSE {name}
Step == /\ l <= Len(Trace)
        /\ LET e == Trace[l]
               t == e.tables
               n == Len(t)
               bad == IF e.p # "ok" THEN {"Total"}
                      ELSE IF ~HeaderOk(n, e.out) THEN {"Header"}
                      ELSE F("DirectoryOrder", DirectoryOrder(t, e.out))
                           \cup F("Checksums", Checksums(t, e.out))
                           \cup F("Lengths", Lengths(t, e.out))
                           \cup F("Offsets", Offsets(t, e.out))
                           \cup F("ReadBack", ReadBack(t, e.out))
                           \cup F("LoaderTags", e.loaderr = "" /\ e.tags = [i \in DOMAIN t |-> t[i].tag])
                           \cup F("LoaderReadBack", e.loaderr = "" /\ Len(e.rb) = n /\ \A i \in DOMAIN t : e.rb[i].err = "" /\ e.rb[i].bytes = t[i].bytes)
                           \cup F("InputsUntouched", e.before = e.after)
           IN /\ fails' = fails \cup {[line |-> l, pred |-> b] : b \in bad}
              /\ nontriv' = nontriv + (IF \E i \in DOMAIN t : Len(t[i].bytes) % 4 # 0 THEN 1 ELSE 0)
        /\ l' = l + 1
Next == Step
Keep == TLCSet(1, fails) /\ TLCSet(2, nontriv)
Post == /\ TLCGet("stats").diameter - 1 = Len(Trace)
        /\ JsonSerialize(IOEnv.VERIF_OUT, [n |-> Len(Trace), fails |-> TLCGet(1), nontrivial |-> TLCGet(2)])
=============================================================================
