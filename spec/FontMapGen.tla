----------------------------- MODULE FontMapGen -----------------------------
(* Flow G for C14: TLC enumerates every history of FontMap operations up to length D over a   *)
(* small operation alphabet; each history ending with a Resolve is printed as one JSON line    *)
(* ("H|[...]") that the Go harness executes on the real FontMap.                               *)
EXTENDS Integers, Sequences, TLC, Json
CONSTANT D
VARIABLE hist

Asps == { [st |-> 1000, sy |-> 1, w |-> 400], [st |-> 1000, sy |-> 2, w |-> 700] }
RuneSets == { <<97>>, <<97, 1103>>, <<1103, 1488>> }
FamLists == { <<"vfalpha">>, <<"vfbeta", "vfalpha">>, <<"vfgamma">> }
Adds == { [op |-> "AddFace", fam |-> f, asp |-> a, runes |-> rs, ttf |-> t] :
            f \in {"vfalpha", "vfbeta"}, a \in Asps, rs \in RuneSets, t \in {TRUE} }
       \cup { [op |-> "AddFace", fam |-> "vfbeta", asp |-> [st |-> 1000, sy |-> 1, w |-> 400], runes |-> <<97, 1103>>, ttf |-> FALSE] }
Queries == { [op |-> "SetQuery", fams |-> fl, asp |-> a] : fl \in FamLists, a \in Asps \cup {[st |-> 0, sy |-> 0, w |-> 0]} }
Scripts == { [op |-> "SetScript", s |-> s] : s \in {"Cyrl", "Latn"} }
Caches == { [op |-> "SetCache", k |-> k] : k \in {0, 1} }
Resolves == { [op |-> "Resolve", r |-> r] : r \in {97, 1103, 1488} }
Ops == Adds \cup Queries \cup Scripts \cup Caches \cup Resolves

Init == hist = << >>
Next == /\ Len(hist) < D
        /\ \E o \in Ops :
             /\ (Len(hist) = 0 => o.op = "AddFace")                     \* a map needs a font first
             /\ (Len(hist) = D - 1 => o.op = "Resolve")                 \* only histories that end by observing
             /\ hist' = Append(hist, o)
Spec == Init /\ [][Next]_hist

Emit == (Len(hist) >= 2 /\ hist[Len(hist)].op = "Resolve") => PrintT("H|" \o ToJson(hist))
=============================================================================
