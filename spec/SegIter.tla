------------------------------ MODULE SegIter ------------------------------
(* Iterator protocol of the segmenter (C06, second sentence): iterating segments yields   *)
(* consecutive non-empty slices that concatenate to the input.                              *)
(* Part 1: predicates on an observed list of segments <<offset, length>> (used by SegV).    *)
(* Part 2: a small model of the attribute iterator, model-checked by SegIterMC.             *)
EXTENDS Naturals, Sequences

(* boundary positions 1..n of a flag function 0..n -> Nat (non-zero = boundary) *)
Bounds(flags, n) == {i \in 1..n : flags[i] # 0}

(* it is a partition of 0..n into non-empty consecutive slices *)
IsPartition(it, n) ==
  IF n = 0 THEN Len(it) = 0
  ELSE /\ Len(it) >= 1
       /\ it[1][1] = 0
       /\ \A i \in 1..Len(it) : it[i][2] >= 1
       /\ \A i \in 1..(Len(it) - 1) : it[i + 1][1] = it[i][1] + it[i][2]
       /\ it[Len(it)][1] + it[Len(it)][2] = n

(* the slice ends are exactly the boundaries *)
EndsAre(it, flags, n) == {it[i][1] + it[i][2] : i \in 1..Len(it)} = Bounds(flags, n)

(* words: the boundary-delimited slices whose first rune is a word character *)
RECURSIVE NextBound(_, _, _)
NextBound(flags, n, i) == IF i >= n THEN n ELSE IF flags[i] # 0 THEN i ELSE NextBound(flags, n, i + 1)

RECURSIVE WordSegs(_, _, _, _)
WordSegs(flags, wc, n, i) ==
  IF i >= n THEN << >>
  ELSE LET e == NextBound(flags, n, i + 1) IN
       IF wc[i + 1] THEN << <<i, e - i>> >> \o WordSegs(flags, wc, n, e)
       ELSE WordSegs(flags, wc, n, e)
=============================================================================
