------------------------------ MODULE UAX14 ------------------------------
(* Declarative UAX #14 (Unicode 14.0, LB25 tailored as in Example 7).    *)
(* Input: sequence of tuples [c, ea, epcn, mnmc].  Output: function      *)
(* 0..Len(s) -> {0,1,2}  (0 = prohibited, 1 = allowed, 2 = mandatory).    *)
EXTENDS Naturals, Sequences

Resolve(t) ==
  CASE t.c \in {"AI", "SG", "XX"} -> "AL"
    [] t.c = "SA" -> IF t.mnmc THEN "CM" ELSE "AL"
    [] t.c = "CJ" -> "NS"
    [] OTHER -> t.c

Hard == {"BK", "CR", "LF", "NL", "SP", "ZW"}
IsCM(c) == c \in {"CM", "ZWJ"}

(* raw resolved classes *)
Raw(s) == [i \in 1..Len(s) |-> Resolve(s[i])]

(* effective class after LB9 / LB10 *)
RECURSIVE EffAt(_, _)
EffAt(C, i) ==
  IF IsCM(C[i])
  THEN IF i = 1 THEN "AL"
       ELSE LET p == EffAt(C, i - 1) IN IF p \in Hard THEN "AL" ELSE p
  ELSE C[i]

Eff(C) == [i \in 1..Len(C) |-> EffAt(C, i)]

Absorbed(C, E, i) == IsCM(C[i]) /\ i > 1 /\ E[i - 1] \notin Hard

(* indices of the reduced sequence *)
RECURSIVE RedIdx(_, _, _)
RedIdx(C, E, i) ==
  IF i > Len(C) THEN << >>
  ELSE IF Absorbed(C, E, i) THEN RedIdx(C, E, i + 1)
       ELSE << i >> \o RedIdx(C, E, i + 1)

(* --- helpers on the reduced class sequence RC, boundary after index k --- *)

(* class of the last non-SP element at or before k, "" if none *)
RECURSIVE BeforeSpaces(_, _)
BeforeSpaces(RC, k) ==
  IF k < 1 THEN "" ELSE IF RC[k] = "SP" THEN BeforeSpaces(RC, k - 1) ELSE RC[k]

RECURSIVE CountRI(_, _)
CountRI(RC, k) == IF k >= 1 /\ RC[k] = "RI" THEN 1 + CountRI(RC, k - 1) ELSE 0

(* RC[1..k] ends with NU (NU|SY|IS)* *)
RECURSIVE NumRun(_, _)
NumRun(RC, k) ==
  IF k < 1 THEN FALSE
  ELSE IF RC[k] = "NU" THEN TRUE
  ELSE IF RC[k] \in {"SY", "IS"} THEN NumRun(RC, k - 1)
  ELSE FALSE

ALHL == {"AL", "HL"}
Hangul == {"JL", "JV", "JT", "H2", "H3"}

(* rules LB11 .. LB31 on the reduced sequence; T = tuples of reduced elems *)
(* returns 0 or 1 *)
Pair(RC, T, k) ==
  LET a == RC[k]
      b == RC[k + 1]
      n == Len(RC)
      c == IF k + 2 <= n THEN RC[k + 2] ELSE ""
      pp == IF k >= 2 THEN RC[k - 1] ELSE ""
      bs == BeforeSpaces(RC, k)
  IN
  (* LB11 *)
  IF a = "WJ" \/ b = "WJ" THEN 0
  (* LB12 *)
  ELSE IF a = "GL" THEN 0
  (* LB12a *)
  ELSE IF b = "GL" /\ a \notin {"SP", "BA", "HY"} THEN 0
  (* LB13 tailored *)
  ELSE IF b = "EX" THEN 0
  ELSE IF b \in {"CL", "CP", "IS", "SY"} /\ a # "NU" THEN 0
  (* LB14 *)
  ELSE IF bs = "OP" THEN 0
  (* LB15 *)
  ELSE IF bs = "QU" /\ b = "OP" THEN 0
  (* LB16 *)
  ELSE IF bs \in {"CL", "CP"} /\ b = "NS" THEN 0
  (* LB17 *)
  ELSE IF bs = "B2" /\ b = "B2" THEN 0
  (* LB18 *)
  ELSE IF a = "SP" THEN 1
  (* LB19 *)
  ELSE IF a = "QU" \/ b = "QU" THEN 0
  (* LB20 *)
  ELSE IF a = "CB" \/ b = "CB" THEN 1
  (* LB21 *)
  ELSE IF b \in {"BA", "HY", "NS"} \/ a = "BB" THEN 0
  (* LB21a *)
  ELSE IF pp = "HL" /\ a \in {"HY", "BA"} THEN 0
  (* LB21b *)
  ELSE IF a = "SY" /\ b = "HL" THEN 0
  (* LB22 *)
  ELSE IF b = "IN" THEN 0
  (* LB23 *)
  ELSE IF (a \in ALHL /\ b = "NU") \/ (a = "NU" /\ b \in ALHL) THEN 0
  (* LB23a *)
  ELSE IF (a = "PR" /\ b \in {"ID", "EB", "EM"}) \/ (a \in {"ID", "EB", "EM"} /\ b = "PO") THEN 0
  (* LB24 *)
  ELSE IF (a \in {"PR", "PO"} /\ b \in ALHL) \/ (a \in ALHL /\ b \in {"PR", "PO"}) THEN 0
  (* LB25 tailored *)
  ELSE IF a \in {"PR", "PO"} /\ (b = "NU" \/ (b \in {"OP", "HY"} /\ c = "NU")) THEN 0
  ELSE IF a \in {"OP", "HY"} /\ b = "NU" THEN 0
  ELSE IF NumRun(RC, k) /\ b \in {"NU", "SY", "IS", "CL", "CP"} THEN 0
  ELSE IF b \in {"PO", "PR"} /\ (NumRun(RC, k) \/ (a \in {"CL", "CP"} /\ NumRun(RC, k - 1))) THEN 0
  (* LB26 *)
  ELSE IF a = "JL" /\ b \in {"JL", "JV", "H2", "H3"} THEN 0
  ELSE IF a \in {"JV", "H2"} /\ b \in {"JV", "JT"} THEN 0
  ELSE IF a \in {"JT", "H3"} /\ b = "JT" THEN 0
  (* LB27 *)
  ELSE IF (a \in Hangul /\ b = "PO") \/ (a = "PR" /\ b \in Hangul) THEN 0
  (* LB28 *)
  ELSE IF a \in ALHL /\ b \in ALHL THEN 0
  (* LB29 *)
  ELSE IF a = "IS" /\ b \in ALHL THEN 0
  (* LB30 *)
  ELSE IF a \in {"AL", "HL", "NU"} /\ b = "OP" /\ ~T[k + 1].ea THEN 0
  ELSE IF a = "CP" /\ ~T[k].ea /\ b \in {"AL", "HL", "NU"} THEN 0
  (* LB30a *)
  ELSE IF a = "RI" /\ b = "RI" /\ CountRI(RC, k) % 2 = 1 THEN 0
  (* LB30b *)
  ELSE IF b = "EM" /\ (a = "EB" \/ T[k].epcn) THEN 0
  (* LB31 *)
  ELSE 1

(* ZW SP* before boundary after raw index i *)
RECURSIVE ZWSpaces(_, _)
ZWSpaces(C, i) == IF i < 1 THEN FALSE ELSE IF C[i] = "SP" THEN ZWSpaces(C, i - 1) ELSE C[i] = "ZW"

Breaks(s) ==
  LET n == Len(s)
      C == Raw(s)
      E == Eff(C)
      RI == RedIdx(C, E, 1)
      RC == [k \in 1..Len(RI) |-> E[RI[k]]]
      T == [k \in 1..Len(RI) |-> s[RI[k]]]
      (* number of reduced elements at raw positions <= i *)
      Rank == [i \in 0..n |-> Len(SelectSeq(RI, LAMBDA j : j <= i))]
      At(i) ==
        LET a == C[i] b == C[i + 1] IN
        (* LB4, LB5 *)
        IF a = "BK" THEN 2
        ELSE IF a = "CR" /\ b = "LF" THEN 0
        ELSE IF a \in {"CR", "LF", "NL"} THEN 2
        (* LB6 *)
        ELSE IF b \in {"BK", "CR", "LF", "NL"} THEN 0
        (* LB7 *)
        ELSE IF b \in {"SP", "ZW"} THEN 0
        (* LB8 *)
        ELSE IF ZWSpaces(C, i) THEN 1
        (* LB8a *)
        ELSE IF a = "ZWJ" THEN 0
        (* LB9 *)
        ELSE IF Absorbed(C, E, i + 1) THEN 0
        ELSE Pair(RC, T, Rank[i])
  IN [i \in 0..n |-> IF i = 0 THEN 0 ELSE IF i = n THEN 2 ELSE At(i)]
=============================================================================
