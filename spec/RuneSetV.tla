------------------------------ MODULE RuneSetV ------------------------------
(* Monitor for rune-set histories: events New, Add(r), Delete(r), each with the observation    *)
(* obs = [contains: sorted list of probe runes reported present, len, rt: sorted contents after *)
(* a serialize/deserialize round trip (or "error"), inclself, inclplus (includes S + fresh      *)
(* rune), inclsub: includes() of every singleton probe].                                       *)
EXTENDS Integers, Sequences, FiniteSets, TLC, Json, IOUtils
VARIABLES l, S, fails, n
Trace == ndJsonDeserialize(IOEnv.VERIF_TRACE)
Probes == {0, 1, 31, 32, 255, 256, 257, 65535, 65536, 1114111}
SeqToSet(s) == {s[i] : i \in DOMAIN s}
Init == l = 1 /\ S = {} /\ fails = {} /\ n = 0
F(name, b) == IF b THEN {} ELSE {name}
Check(e, T) ==
       F("Contains", SeqToSet(e.contains) = T \cap Probes)
  \cup F("Len", e.len = Cardinality(T))
  \cup F("RoundTrip", e.rterr = "" /\ SeqToSet(e.rt) = T \cap Probes /\ e.rtlen = Cardinality(T))
  \cup F("IncludesSelf", e.inclself)
  \cup F("RoundTripIncludes", e.rterr # "" \/ e.rtincl)      \* the set read back includes, and is included in, the original and itself
  \cup F("IncludesSuperset", ~e.inclplus)
  \cup F("IncludesSingletons", SeqToSet(e.inclsub) = T \cap Probes)
New == /\ l <= Len(Trace) /\ Trace[l].ev = "New" /\ S' = {} /\ n' = n + 1 /\ UNCHANGED fails /\ l' = l + 1
Op == /\ l <= Len(Trace) /\ Trace[l].ev \in {"Add", "Delete"}
      /\ LET e == Trace[l]
             T == IF e.ev = "Add" THEN S \cup {e.r} ELSE S \ {e.r}
         IN /\ S' = T
            /\ fails' = fails \cup {[line |-> l, pred |-> b] : b \in Check(e, T)}
      /\ UNCHANGED n /\ l' = l + 1
Next == New \/ Op
Keep == TLCSet(1, fails) /\ TLCSet(2, n)
Post == /\ TLCGet("stats").diameter - 1 = Len(Trace)
        /\ JsonSerialize(IOEnv.VERIF_OUT, [n |-> Len(Trace), fails |-> TLCGet(1), hist |-> TLCGet(2)])
=============================================================================
