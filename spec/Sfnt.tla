-------------------------------- MODULE Sfnt --------------------------------
(* The sfnt container as written by opentype.WriteTTF (C19).                                  *)
(* tables: sequence of [tag: <<b1,b2,b3,b4>>, bytes: sequence of 0..255], sorted by distinct   *)
(* tag. out: the written file as a sequence of bytes.                                          *)
(* 32-bit quantities are handled as pairs of 16-bit halves <<hi, lo>> (TLC integers are 32-bit  *)
(* signed), U32 is used only for offsets / lengths, which are < 2^31 for every generated file. *)
EXTENDS Integers, Sequences, FiniteSets

U16(s, p) == s[p + 1] * 256 + s[p + 2]                   \* p = 0-based byte offset
Halves(s, p) == << U16(s, p), U16(s, p + 2) >>
U32(s, p) == U16(s, p) * 65536 + U16(s, p + 2)

RECURSIVE Log2Floor(_)
Log2Floor(n) == IF n <= 1 THEN 0 ELSE 1 + Log2Floor(n \div 2)
RECURSIVE Pow2(_)
Pow2(k) == IF k = 0 THEN 1 ELSE 2 * Pow2(k - 1)

(* table checksum: sum of the big-endian 32-bit words of the zero-padded body, mod 2^32 *)
Byte(b, i) == IF i <= Len(b) THEN b[i] ELSE 0
RECURSIVE SumHalves(_, _, _, _)
SumHalves(b, w, hi, lo) ==      \* w = 0-based word index
  IF 4 * w >= Len(b) THEN << hi, lo >>
  ELSE SumHalves(b, w + 1, hi + Byte(b, 4 * w + 1) * 256 + Byte(b, 4 * w + 2), lo + Byte(b, 4 * w + 3) * 256 + Byte(b, 4 * w + 4))
Checksum(b) == LET s == SumHalves(b, 0, 0, 0) IN << (s[1] + s[2] \div 65536) % 65536, s[2] % 65536 >>

HeaderSize == 12
EntrySize == 16
Entry(out, i) ==           \* i = 1-based directory index
  LET p == HeaderSize + (i - 1) * EntrySize IN
  [tag |-> << out[p + 1], out[p + 2], out[p + 3], out[p + 4] >>, sum |-> Halves(out, p + 4), off |-> U32(out, p + 8), len |-> U32(out, p + 12)]

HeaderOk(n, out) ==
  /\ Len(out) >= HeaderSize + n * EntrySize
  /\ Halves(out, 0) = << 1, 0 >>                                      \* sfnt version 0x00010000
  /\ U16(out, 4) = n
  /\ n >= 1 => /\ U16(out, 6) = 16 * Pow2(Log2Floor(n))                \* searchRange
               /\ U16(out, 8) = Log2Floor(n)                           \* entrySelector
               /\ U16(out, 10) = 16 * n - 16 * Pow2(Log2Floor(n))      \* rangeShift
  /\ n = 0 => U16(out, 6) = 0 /\ U16(out, 8) = 0 /\ U16(out, 10) = 0

DirectoryOrder(tables, out) == \A i \in DOMAIN tables : Entry(out, i).tag = tables[i].tag
Checksums(tables, out) == \A i \in DOMAIN tables : Entry(out, i).sum = Checksum(tables[i].bytes)
Lengths(tables, out) == \A i \in DOMAIN tables : Entry(out, i).len = Len(tables[i].bytes)
Offsets(tables, out) ==
  \A i \in DOMAIN tables :
    LET e == Entry(out, i) IN
    /\ e.off >= HeaderSize + Len(tables) * EntrySize
    /\ e.off + e.len <= Len(out)
    /\ \A j \in DOMAIN tables : (j # i /\ e.len > 0 /\ Entry(out, j).len > 0)
          => (e.off + e.len <= Entry(out, j).off \/ Entry(out, j).off + Entry(out, j).len <= e.off)

(* independent read-back: decode the directory of `out` and slice the bodies *)
Decode(out) ==
  LET n == U16(out, 4) IN
  [i \in 1..n |-> LET e == Entry(out, i) IN [tag |-> e.tag, bytes |-> SubSeq(out, e.off + 1, e.off + e.len)]]
ReadBack(tables, out) ==
  /\ Len(out) >= HeaderSize /\ Len(out) >= HeaderSize + U16(out, 4) * EntrySize
  /\ \A i \in 1..U16(out, 4) : Entry(out, i).off + Entry(out, i).len <= Len(out)
  /\ Decode(out) = [i \in DOMAIN tables |-> [tag |-> tables[i].tag, bytes |-> tables[i].bytes]]
=============================================================================
