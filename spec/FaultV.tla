-------------------------------- MODULE FaultV --------------------------------
(* Lifecycle specification and monitor for C09. One event per execution of a faulted font:        *)
(*   steps: sequence of [name, res]; the first is Open; res in {"ok", "err"} are the only outcomes  *)
(*   the specification accepts ("panic:...", "timeout", "crash:..." are accepted by no action);     *)
(*   Open = err ends the lifecycle; allockb (growth of the live heap at its highest sampled point, KiB) must stay proportional to size;          *)
(*   raw: for sfnt files that opened, per directory entry [off, len, res, got]: RawTable must         *)
(*   return exactly the bytes [off, off+len) when they lie inside the file and an error otherwise.   *)
EXTENDS Integers, Sequences, FiniteSets, TLC, Json, IOUtils
VARIABLES l, fails, stats
Trace == ndJsonDeserialize(IOEnv.VERIF_TRACE)
Init == l = 1 /\ fails = {} /\ stats = [execs |-> 0, opened |-> 0]
F(name, b) == IF b THEN {} ELSE {name}
Accepted == {"ok", "err"}
LifecycleOk(e) == /\ Len(e.steps) >= 1 /\ e.steps[1].name = "Open"
                  /\ (e.steps[1].res = "err" => Len(e.steps) = 1)
Total(e) == \A i \in DOMAIN e.steps : e.steps[i].res \in Accepted
AllocBound(e) == e.allockb <= 64 * (e.size \div 1024 + 1) + 65536          \* in KiB: 64 x size + 64 MiB
RawPredicted(e) == \A i \in DOMAIN e.raw :
                     LET r == e.raw[i] IN
                     IF r.len = 0 \/ (r.len <= e.size /\ r.off <= e.size - r.len)      \* empty, or off + len <= size (without overflowing)
                     THEN r.res = "ok" /\ r.got = r.len ELSE r.res = "err"
Step == /\ l <= Len(Trace)
        /\ LET e == Trace[l]
               bad == F("Lifecycle", LifecycleOk(e)) \cup F("Total", Total(e)) \cup F("AllocBound", AllocBound(e)) \cup F("RawPredicted", RawPredicted(e))
           IN /\ fails' = fails \cup {[line |-> l, pred |-> b] : b \in bad}
              /\ stats' = [stats EXCEPT !.execs = @ + 1, !.opened = @ + (IF Len(e.steps) >= 1 /\ e.steps[1].res = "ok" THEN 1 ELSE 0)]
        /\ l' = l + 1
Next == Step
Keep == TLCSet(1, fails) /\ TLCSet(2, stats)
Post == /\ TLCGet("stats").diameter - 1 = Len(Trace)
        /\ JsonSerialize(IOEnv.VERIF_OUT, [n |-> Len(Trace), fails |-> TLCGet(1), stats |-> TLCGet(2)])
=============================================================================
