------------------------------- MODULE Geometry -------------------------------
(* Self-consistency of a shaped run (C12). Glyph record (26.6 units):                          *)
(*   <<gid, cluster, runeCount, glyphCount, xa, ya, xo, yo, w, h, xb, yb>>                       *)
(* Run: vert (vertical axis), adv, asc/desc (glyph bounds), lb (line bounds asc, desc, gap),      *)
(* fe (the font's extents for the run's axis at the same scale, a fact from the font).            *)
EXTENDS Integers, Sequences, FiniteSets, SequencesExt

Xa(g) == g[5]
Ya(g) == g[6]
Xo(g) == g[7]
Yo(g) == g[8]
W(g) == g[9]
H(g) == g[10]
Xb(g) == g[11]
Yb(g) == g[12]

Sum(f) == FoldLeft(LAMBDA acc, x : acc + x, 0, f)

(* ink box of a glyph relative to the pen position: [x0, x1] x [y0, y1] (height is negative) *)
Ink(g) == [x0 |-> Xo(g) + Xb(g), x1 |-> Xo(g) + Xb(g) + W(g), y0 |-> Yo(g) + Yb(g) + H(g), y1 |-> Yo(g) + Yb(g)]

AdvSum(e) == e.adv = Sum([i \in DOMAIN e.g |-> IF e.vert THEN Ya(e.g[i]) ELSE Xa(e.g[i])])
CrossZero(e) == \A i \in DOMAIN e.g : IF e.vert THEN Xa(e.g[i]) = 0 ELSE Ya(e.g[i]) = 0
(* glyph bounds enclose the baseline and every glyph's ink box on the cross axis *)
BoundsEnclose(e) ==
  /\ e.asc >= 0 /\ e.desc <= 0
  /\ \A i \in DOMAIN e.g :
       LET k == Ink(e.g[i]) IN
       IF e.vert THEN e.desc <= k.x0 /\ k.x1 <= e.asc
       ELSE e.desc <= k.y0 /\ k.y1 <= e.asc
(* and are tight: some glyph (or the baseline) reaches each bound *)
BoundsTight(e) ==
  /\ (e.asc = 0 \/ \E i \in DOMAIN e.g : (IF e.vert THEN Ink(e.g[i]).x1 ELSE Ink(e.g[i]).y1) = e.asc)
  /\ (e.desc = 0 \/ \E i \in DOMAIN e.g : (IF e.vert THEN Ink(e.g[i]).x0 ELSE Ink(e.g[i]).y0) = e.desc)
LineBounds(e) == e.lb = e.fe

(* a sideways vertical run is the horizontal shaping of the same text rotated by 90 degrees     *)
(* clockwise: (x, y) |-> (y, -x), applied to the advance vector and to the ink box               *)
RotInk(k) == [x0 |-> k.y0, x1 |-> k.y1, y0 |-> 0 - k.x1, y1 |-> 0 - k.x0]
Rotation(e) ==
  /\ Len(e.g) = Len(e.twin)
  /\ \A i \in DOMAIN e.g :
       LET v == e.g[i]
           h == e.twin[i]
       IN /\ v[1] = h[1] /\ v[2] = h[2] /\ v[3] = h[3] /\ v[4] = h[4]
          /\ Xa(v) = Ya(h) /\ Ya(v) = 0 - Xa(h)
          /\ Ink(v) = RotInk(Ink(h))

(* ---- spacing (synthetic runs): event sp with before / after glyph advances ---------------- *)
(* glyph here: <<cluster, runeCount, glyphCount, adv, off, rune (code point of the cluster's     *)
(*               first rune)>>; s = requested spacing (26.6), start/end = isStartRun/isEndRun     *)
Separators == {32, 160, 4961, 65792, 65793, 66463, 67871}
Half(s) == IF s >= 0 THEN s \div 2 ELSE 0 - ((0 - s) \div 2)
WordSpacingOk(e) ==
  /\ Len(e.before) = Len(e.after)
  /\ \A i \in DOMAIN e.before :
       LET b == e.before[i] a == e.after[i]
           eligible == b[2] = 1 /\ b[3] = 1 /\ b[6] \in Separators
       IN a[4] = b[4] + (IF eligible THEN e.s ELSE 0)
(* cluster groups in array order: first and last glyph index of the cluster of glyph i *)
FirstOf(seq, i) == CHOOSE j \in DOMAIN seq : seq[j][1] = seq[i][1] /\ \A k \in DOMAIN seq : seq[k][1] = seq[i][1] => j <= k
LastOf(seq, i) == CHOOSE j \in DOMAIN seq : seq[j][1] = seq[i][1] /\ \A k \in DOMAIN seq : seq[k][1] = seq[i][1] => j >= k
LetterSpacingOk(e) ==
  /\ Len(e.before) = Len(e.after)
  /\ \A i \in DOMAIN e.before :
       LET b == e.before[i] a == e.after[i]
           n == Len(e.before)
           atStart == FirstOf(e.before, i) = i /\ ~(i = 1 /\ e.start)
           atEnd == LastOf(e.before, i) = i /\ ~(i = n /\ e.end)
       IN a[4] = b[4] + (IF atStart THEN Half(e.s) ELSE 0) + (IF atEnd THEN Half(e.s) ELSE 0)
SpacingAdvSum(e) == e.advafter = Sum([i \in DOMAIN e.after |-> e.after[i][4]])
=============================================================================
