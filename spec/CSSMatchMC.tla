----------------------------- MODULE CSSMatchMC -----------------------------
(* Flow M for C15: for every candidate sequence of <= K aspects over a grid and every         *)
(* request, Narrow is non-empty, a subset, uniform, and exact matches win.                    *)
EXTENDS CSSMatch, TLC
CONSTANTS K, Stretches, Weights
VARIABLES C, req, phase
Aspects == [st : Stretches, sy : {1, 2}, w : Weights]
Reqs == [st : Stretches \cup {0, 1100}, sy : {0, 1, 2}, w : Weights \cup {0, 425, 950}]
Init == C = << >> /\ req = [st |-> 0, sy |-> 0, w |-> 0] /\ phase = "c"
AddC == phase = "c" /\ Len(C) < K /\ \E a \in Aspects : C' = Append(C, a) /\ UNCHANGED <<req, phase>>
Ask == phase = "c" /\ Len(C) >= 1 /\ \E q \in Reqs : req' = q /\ phase' = "q" /\ UNCHANGED C
Next == AddC \/ Ask
Spec == Init /\ [][Next]_<<C, req, phase>>
Ok == phase = "q" => WellFormed(C, req) /\ Exact(C, req)
=============================================================================
