SPECIFICATION Spec
CONSTANT D = 5
INVARIANT Refines
INVARIANT CacheCoherent
INVARIANT BuiltFresh
CHECK_DEADLOCK FALSE
