------------------------------ MODULE SafeBreakV ------------------------------
EXTENDS SafeBreak, TLC, Json, IOUtils
VARIABLES l, fails, stats
Trace == ndJsonDeserialize(IOEnv.VERIF_TRACE)
Init == l = 1 /\ fails = {} /\ stats = [n |-> 0, nontriv |-> 0, oos |-> 0]
F(name, b) == IF b THEN {} ELSE {name}
Step == /\ l <= Len(Trace)
        /\ LET e == Trace[l]
               inscope == e.p = "ok" /\ Monotone(e)       \* the statement covers monotone clusters (any direction)
               bad == IF e.p = "panic" THEN {"Total"}
                      ELSE IF ~inscope THEN {}
                      ELSE IF ~FragmentsAreSegments(e) THEN {"HarnessCuts"}
                      ELSE F("FlagsUniform", FlagsUniform(e)) \cup F("Concat", Concat(e))
           IN /\ fails' = fails \cup {[line |-> l, pred |-> b] : b \in bad}
              /\ stats' = [stats EXCEPT !.n = @ + 1, !.oos = @ + (IF inscope THEN 0 ELSE 1),
                                         !.nontriv = @ + (IF inscope /\ Len(e.frags) >= 2 /\ \E i \in DOMAIN e.whole : e.whole[i].unsafe THEN 1 ELSE 0)]
        /\ l' = l + 1
Next == Step
Keep == TLCSet(1, fails) /\ TLCSet(2, stats)
Post == /\ TLCGet("stats").diameter - 1 = Len(Trace)
        /\ JsonSerialize(IOEnv.VERIF_OUT, [n |-> Len(Trace), fails |-> TLCGet(1), stats |-> TLCGet(2)])
=============================================================================
