-------------------------------- MODULE Wrap --------------------------------
(* Property specification of line wrapping (C02, C03, C04) and of the visual order of      *)
(* runs (C08, with Bidi.tla). It is an acceptance predicate over ONE wrapped line of ONE    *)
(* paragraph: where the statements leave freedom every allowed answer is accepted, where     *)
(* they pin the answer (legal ends, greedy maximality, counts) the predicate is exact.       *)
(*                                                                                            *)
(* Scenario record sc:                                                                        *)
(*   n      number of runes of the paragraph                                                  *)
(*   runs   input runs, logical order: [off, cnt, dir (0 = LTR/TTB, 1 = RTL/BTT), lvl, g]      *)
(*          g = glyphs in array order, each <<cluster, advance(26.6), isSpace, gid,           *)
(*              startLetterSpacing, endLetterSpacing>>                                        *)
(*   wb, mb, gb  UAX #14 opportunities, mandatory breaks, UAX #29 boundaries (positions 1..n) *)
(*   cfg    [pdir, pol (0 WhenNecessary, 1 Never, 2 Always), trunc, tadv, cont, notrim]        *)
(* Line record ln (one WrapNextLine call):                                                    *)
(*   runs [off, cnt, dir, adv, vi, tr (is truncator), g], truncated, next, done, w            *)
EXTENDS Integers, Sequences, FiniteSets

(* widths are compared in whole pixels (the wrapper compares Ceil of the 26.6 advance with the integer   *)
(* width); written without multiplying the width by 64, which overflows 32-bit integers for "unlimited"  *)
(* widths such as MaxInt32                                                                              *)
CeilPx(x) == IF x >= 0 THEN (x + 63) \div 64 ELSE 0 - ((0 - x) \div 64)

SeqToSet(s) == {s[i] : i \in DOMAIN s}

RECURSIVE SumUpTo(_, _)
SumUpTo(f, k) == IF k = 0 THEN 0 ELSE f[k] + SumUpTo(f, k - 1)
SumSeq(s) == SumUpTo(s, Len(s))

Min(S) == CHOOSE x \in S : \A y \in S : x <= y
Max(S) == CHOOSE x \in S : \A y \in S : x >= y

Cl(g) == g[1]
Adv(g) == g[2]
Sp(g) == g[3] = 1
Gid(g) == g[4]
Ls(g) == g[5]
Le(g) == g[6]

WB(sc) == SeqToSet(sc.wb)
MB(sc) == SeqToSet(sc.mb)
GB(sc) == SeqToSet(sc.gb)

(* cluster boundaries of the shaped input: cluster starts and run ends *)
CB(sc) == {0, sc.n} \cup UNION { {sc.runs[r].off, sc.runs[r].off + sc.runs[r].cnt}
                                   \cup {Cl(sc.runs[r].g[i]) : i \in DOMAIN sc.runs[r].g} : r \in DOMAIN sc.runs }

Fine(sc) == sc.cfg.pol # 1

(* positions where a line may legally end *)
Perm(sc, fine) == {x \in 1..sc.n : x \in CB(sc) /\ (x = sc.n \/ x \in WB(sc) \/ (fine /\ x \in GB(sc)))}

RunOf(sc, x) == CHOOSE r \in DOMAIN sc.runs : sc.runs[r].off <= x /\ x < sc.runs[r].off + sc.runs[r].cnt
HasRun(sc, x) == \E r \in DOMAIN sc.runs : sc.runs[r].off <= x /\ x < sc.runs[r].off + sc.runs[r].cnt

(* sum of the input advances of the glyphs whose cluster lies in [s, e) *)
AdvRun(run, s, e) == SumSeq([i \in DOMAIN run.g |-> IF s <= Cl(run.g[i]) /\ Cl(run.g[i]) < e THEN Adv(run.g[i]) ELSE 0])
AdvIn(sc, s, e) == SumSeq([r \in DOMAIN sc.runs |-> AdvRun(sc.runs[r], s, e)])

(* glyph indices of run r whose cluster lies in [s, e) *)
PieceIdx(run, s, e) == {i \in DOMAIN run.g : s <= Cl(run.g[i]) /\ Cl(run.g[i]) < e}

(* what is not counted at the line end: one trailing whitespace glyph, or the trailing     *)
(* letter spacing, when the last run has the paragraph direction                             *)
Discount(sc, s, e) ==
  IF e <= s \/ ~HasRun(sc, e - 1) THEN 0
  ELSE LET run == sc.runs[RunOf(sc, e - 1)]
           idx == PieceIdx(run, s, e)
       IN IF idx = {} \/ run.dir # sc.cfg.pdir THEN 0
          ELSE LET g == run.g[IF run.dir = 0 THEN Max(idx) ELSE Min(idx)]
               IN IF Sp(g) THEN Adv(g) ELSE Le(g)

(* letter spacing trimmed at the start of a line: first glyph (array order) of the first piece *)
StartTrim(sc, s, e) ==
  IF e <= s \/ ~HasRun(sc, s) THEN 0
  ELSE LET run == sc.runs[RunOf(sc, s)]
           idx == PieceIdx(run, s, e)
       IN IF idx = {} THEN 0 ELSE Ls(run.g[Min(idx)])

(* width a line [s, e) would be measured at, from the input advances *)
Width(sc, s, e) == AdvIn(sc, s, e) - Discount(sc, s, e) - StartTrim(sc, s, e)

Body(ln) == SelectSeq(ln.runs, LAMBDA r : ~r.tr)
HasTruncator(ln) == Len(ln.runs) >= 1 /\ ln.runs[Len(ln.runs)].tr

(* ------------------------------------------------------------------ C02 *)
NonEmpty(sc, ln) == sc.n > 0 => Len(ln.runs) >= 1

Contig(sc, ln, pos) ==
  LET b == Body(ln) IN
  /\ \A i \in DOMAIN b : b[i].cnt >= 1
  /\ (Len(b) >= 1 => b[1].off = pos)
  /\ \A i \in 1..(Len(b) - 1) : b[i + 1].off = b[i].off + b[i].cnt
  /\ ln.next = (IF Len(b) = 0 THEN pos ELSE b[Len(b)].off + b[Len(b)].cnt)
  /\ \A i \in DOMAIN ln.runs : ln.runs[i].tr => i = Len(ln.runs)

(* each placed run is a contiguous piece of one input run holding exactly the glyphs of the  *)
(* clusters of its rune range; advances may differ only by the documented trailing-space      *)
(* zeroing and start-letter-spacing trim                                                      *)
PieceOk(sc, R) ==
  /\ R.cnt >= 1 /\ HasRun(sc, R.off)
  /\ LET run == sc.runs[RunOf(sc, R.off)]
         sel == SelectSeq(run.g, LAMBDA g : R.off <= Cl(g) /\ Cl(g) < R.off + R.cnt)
     IN /\ R.off + R.cnt <= run.off + run.cnt
        /\ R.dir = run.dir
        /\ R.off \in CB(sc) /\ (R.off + R.cnt) \in CB(sc)
        /\ Len(R.g) = Len(sel)
        /\ \A i \in DOMAIN sel :
             /\ Cl(R.g[i]) = Cl(sel[i]) /\ Gid(R.g[i]) = Gid(sel[i])
             /\ \/ Adv(R.g[i]) = Adv(sel[i])
                \/ Adv(R.g[i]) = Adv(sel[i]) - Ls(sel[i])
                \/ (Sp(sel[i]) /\ ~sc.cfg.notrim /\ Adv(R.g[i]) \in {0, 0 - Ls(sel[i])})
Piece(sc, ln) == \A i \in DOMAIN Body(ln) : PieceOk(sc, Body(ln)[i])

SumOk(R) == R.adv = SumSeq([i \in DOMAIN R.g |-> Adv(R.g[i])])
Sum(sc, ln) == \A i \in DOMAIN ln.runs : SumOk(ln.runs[i])

Cover(sc, ln) == ln.done => ln.next + ln.truncated = sc.n

(* ------------------------------------------------------------------ C03 *)
BodyEmpty(ln) == Len(Body(ln)) = 0

LegalEnd(sc, ln, pos) == BodyEmpty(ln) \/ ln.next \in Perm(sc, Fine(sc))
NoIntraCluster(sc, ln) == ln.next \in CB(sc)
Mandatory(sc, ln, pos) == ~ \E m \in MB(sc) \cap CB(sc) : pos < m /\ m < ln.next

FirstPerm(sc, fine, after) == LET S == {x \in Perm(sc, fine) : x > after} IN IF S = {} THEN sc.n ELSE Min(S)

IsTruncLine(sc, k) == sc.cfg.trunc > 0 /\ k = sc.cfg.trunc

SplitOnlyWhenNecessary(sc, ln, pos, k) ==
  (sc.cfg.pol = 0 /\ ~BodyEmpty(ln) /\ ln.next # sc.n /\ ln.next \notin WB(sc))
    => \/ IsTruncLine(sc, k)
       \/ CeilPx(Width(sc, pos, FirstPerm(sc, FALSE, pos))) > ln.w

(* ------------------------------------------------------------------ C04 *)
(* measured width of the returned line *)
Measured(sc, ln) ==
  LET b == Body(ln)
      total == SumSeq([i \in DOMAIN b |-> SumSeq([j \in DOMAIN b[i].g |-> Adv(b[i].g[j])])])
  IN IF Len(b) = 0 THEN 0
     ELSE LET R == b[Len(b)] IN
          IF R.dir # sc.cfg.pdir \/ Len(R.g) = 0 THEN total
          ELSE LET g == R.g[IF R.dir = 0 THEN Len(R.g) ELSE 1]
               IN total - (IF Sp(g) THEN Adv(g) ELSE Le(g))

TruncW(sc, ln) == ln.w - ((sc.cfg.tadv + 63) \div 64)

Fits(sc, ln, pos, k) ==
  \/ BodyEmpty(ln)
  \/ CeilPx(Measured(sc, ln)) <= (IF HasTruncator(ln) THEN TruncW(sc, ln) ELSE ln.w)
  \/ ln.next = FirstPerm(sc, Fine(sc), pos)          \* a single unbreakable unit

(* granularity at which this line could have been extended *)
GreedyFine(sc, ln, pos) ==
  CASE sc.cfg.pol = 2 -> TRUE
    [] sc.cfg.pol = 1 -> FALSE
    [] OTHER -> CeilPx(Width(sc, pos, FirstPerm(sc, FALSE, pos))) > ln.w

Greedy(sc, ln, pos, k) ==
  (ln.next < sc.n /\ ln.next > pos /\ ln.next \notin MB(sc) /\ ~IsTruncLine(sc, k))
    => LET e2 == FirstPerm(sc, GreedyFine(sc, ln, pos), ln.next)
       IN \/ \E m \in MB(sc) \cap CB(sc) : pos < m /\ m < e2
          \/ CeilPx(Width(sc, pos, e2)) > ln.w

TruncCount(sc, k) == sc.cfg.trunc > 0 => k <= sc.cfg.trunc

Truncator(sc, ln, k) ==
  IF IsTruncLine(sc, k)
  THEN /\ ln.done
       /\ HasTruncator(ln) <=> (ln.truncated > 0 \/ sc.cfg.cont)
       /\ HasTruncator(ln) => LET T == ln.runs[Len(ln.runs)] IN T.off = ln.next /\ T.cnt = ln.truncated
  ELSE ~HasTruncator(ln) /\ ln.truncated = 0

(* on the truncation line, the line was filled against the reduced width: if runes were cut  *)
(* although the rest would have fitted in the full width together with nothing cut, that is   *)
(* covered by Greedy-like maximality against the reduced width                                *)
TruncGreedy(sc, ln, pos, k) ==
  (IsTruncLine(sc, k) /\ ln.truncated > 0 /\ ~BodyEmpty(ln))
    => LET e2 == FirstPerm(sc, Fine(sc), ln.next)
       IN \/ \E m \in MB(sc) \cap CB(sc) : pos < m /\ m <= ln.next
          \/ CeilPx(Width(sc, pos, e2)) > (IF e2 = sc.n /\ ~sc.cfg.cont THEN ln.w ELSE TruncW(sc, ln))
=============================================================================
