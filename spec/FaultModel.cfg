SPECIFICATION Spec
CONSTANTS NT = 16
  PT = 3
INVARIANT Emit
CHECK_DEADLOCK FALSE
