SPECIFICATION Spec
CONSTANTS K = 3
  Stretches = {750, 1000, 1250}
  Weights = {300, 400, 450, 500, 600}
INVARIANT Ok
CHECK_DEADLOCK FALSE
