------------------------------- MODULE LangTag -------------------------------
(* Language tag laws (C20): canonicalisation is idempotent; every identifier of the language  *)
(* table round-trips through its tag; a tag that is not in the table falls back to its primary  *)
(* sub-tag. Canon is also given as a specification over byte strings (sequences of code points). *)
EXTENDS Integers, Sequences

CanonChar(c) ==
  IF c >= 65 /\ c <= 90 THEN << c + 32 >>            \* A-Z -> a-z
  ELSE IF (c >= 97 /\ c <= 122) \/ (c >= 48 /\ c <= 57) \/ c = 45 THEN << c >>
  ELSE IF c = 95 \/ c = 64 THEN << 45 >>              \* '_' (and '@', as the table has it) -> '-'
  ELSE << >>
RECURSIVE Canon(_)
Canon(s) == IF s = << >> THEN << >> ELSE CanonChar(Head(s)) \o Canon(Tail(s))

Idempotent(e) == e.c2 = e.c1
CanonSpec(e) == e.c1 = Canon(e.s)
RoundTrip(e) == e.ok /\ e.back = e.id
(* primary fallback: if the tag itself is not a table entry, the id is the id of its primary part *)
PrimaryFallback(e) == (~e.exact /\ e.ok) => (e.primaryok /\ e.id = e.primaryid)
=============================================================================
