SPECIFICATION Spec
CONSTANTS K = 4
  N = 8
INVARIANT BisectEqLinear
CHECK_DEADLOCK FALSE
