------------------------------- MODULE CmapV -------------------------------
EXTENDS Cmap, TLC, Json, IOUtils
VARIABLES l, fails, nontriv
Trace == ndJsonDeserialize(IOEnv.VERIF_TRACE)
Init == l = 1 /\ fails = {} /\ nontriv = 0
F(name, b) == IF b THEN {} ELSE {name}
Step == /\ l <= Len(Trace)
        /\ LET e == Trace[l]
               bad == IF e.p # "ok" THEN {"Total"}
                      ELSE F("LookWellFormed", Ascending(e.look) /\ Ascending(e.cov))
                           \cup F("IterEqLookup", IterEqLookup(e))
                           \cup F("CoverageExact", CoverageExact(e))
                           \cup F("RangesExact", RangesExact(e))
                           \cup F("ScriptsExact", ScriptsExact(e))
                           \cup F("CoverageHistoryFree", CoverageHistoryFree(e))
           IN /\ fails' = fails \cup {[line |-> l, pred |-> b] : b \in bad}
              /\ nontriv' = nontriv + (IF e.p = "ok" /\ Len(e.look) >= 2 THEN 1 ELSE 0)
        /\ l' = l + 1
Next == Step
Keep == TLCSet(1, fails) /\ TLCSet(2, nontriv)
Post == /\ TLCGet("stats").diameter - 1 = Len(Trace)
        /\ JsonSerialize(IOEnv.VERIF_OUT, [n |-> Len(Trace), fails |-> TLCGet(1), nontrivial |-> TLCGet(2)])
=============================================================================
