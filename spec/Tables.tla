-------------------------------- MODULE Tables --------------------------------
(* Laws of the Unicode classification tables (C20).                                           *)
(* A family of first-match-wins range tables is logged as                                      *)
(*   tables: sequence of [name, ranges: sequence of <<lo, hi>>]   (family order)               *)
(*   merged: all ranges of all tables sorted by lo: <<lo, hi, k>> (k = index into tables)      *)
(*   runs  : the library's lookup over ALL code points, canonical runs <<lo, hi, name>>        *)
(*   default: the value returned when no table matches                                         *)
EXTENDS Integers, Sequences, FiniteSets, SequencesExt

MaxRune == 1114111

Sorted(r) == /\ \A i \in DOMAIN r : r[i][1] <= r[i][2]
             /\ \A i \in 1..(Len(r) - 1) : r[i][2] < r[i + 1][1]

(* merged is a faithful merge of the tables: same number of ranges, each found in its table *)
MergeFaithful(f) ==
  /\ Len(f.merged) = FoldLeft(LAMBDA acc, t : acc + Len(t.ranges), 0, f.tables)
  /\ LET sets == [k \in DOMAIN f.tables |-> {f.tables[k].ranges[j] : j \in DOMAIN f.tables[k].ranges}]
     IN \A i \in DOMAIN f.merged : f.merged[i][3] \in DOMAIN f.tables /\ << f.merged[i][1], f.merged[i][2] >> \in sets[f.merged[i][3]]

(* every table sorted, and no code point in two tables: the merged list is strictly ascending *)
ExactlyOne(f) == /\ \A k \in DOMAIN f.tables : Sorted(f.tables[k].ranges)
                 /\ \A i \in DOMAIN f.merged : f.merged[i][1] <= f.merged[i][2]
                 /\ \A i \in 1..(Len(f.merged) - 1) : f.merged[i][2] < f.merged[i + 1][1]

(* the lookup agrees with a linear scan of the tables: the points where the looked-up value    *)
(* changes are exactly the points where the tables (plus the default in the gaps) change        *)
Cls(f, i) == f.tables[f.merged[i][3]].name
Adjacent(f, i) == i > 1 /\ f.merged[i - 1][2] + 1 = f.merged[i][1]
PrevCls(f, i) == IF i = 1 THEN (IF f.merged[1][1] = 0 THEN "<none>" ELSE f.default)
                 ELSE IF Adjacent(f, i) THEN Cls(f, i - 1) ELSE f.default
GapAfter(f, i) == IF i = Len(f.merged) THEN f.merged[i][2] < MaxRune ELSE f.merged[i][2] + 1 < f.merged[i + 1][1]
ExpectedChanges(f) ==
     {<< f.merged[i][1], Cls(f, i) >> : i \in {j \in DOMAIN f.merged : PrevCls(f, j) # Cls(f, j)}}
  \cup {<< f.merged[i][2] + 1, f.default >> : i \in {j \in DOMAIN f.merged : GapAfter(f, j) /\ Cls(f, j) # f.default}}
  \cup (IF Len(f.merged) = 0 \/ f.merged[1][1] > 0 THEN {<< 0, f.default >>} ELSE {})
RunsWellFormed(f) == /\ Len(f.runs) >= 1 /\ f.runs[1][1] = 0 /\ f.runs[Len(f.runs)][2] = MaxRune
                     /\ \A i \in 1..(Len(f.runs) - 1) : f.runs[i][2] + 1 = f.runs[i + 1][1] /\ f.runs[i][3] # f.runs[i + 1][3]
LookupAgrees(f) == RunsWellFormed(f) /\ {<< f.runs[i][1], f.runs[i][3] >> : i \in DOMAIN f.runs} = ExpectedChanges(f)

(* mirroring is an involution: pairs = the (r, mirror) with mirror # r *)
Involution(pairs) == LET S == {<< pairs[i][1], pairs[i][2] >> : i \in DOMAIN pairs} IN \A p \in S : << p[2], p[1] >> \in S

(* bisection over a sorted disjoint table equals the linear scan (model-checked in TablesMC) *)
Linear(t, x) == IF \E i \in DOMAIN t : t[i][1] <= x /\ x <= t[i][2] THEN t[CHOOSE i \in DOMAIN t : t[i][1] <= x /\ x <= t[i][2]][3] ELSE 0
RECURSIVE Bisect(_, _, _, _)
Bisect(t, x, i, j) ==      \* half-open [i, j) over 0-based indices, as in language.LookupScript
  IF i >= j THEN 0
  ELSE LET h == i + (j - i) \div 2
           e == t[h + 1]
       IN IF x < e[1] THEN Bisect(t, x, i, h) ELSE IF e[2] < x THEN Bisect(t, x, h + 1, j) ELSE e[3]
=============================================================================
