------------------------------- MODULE FontMap -------------------------------
(* Property specification of font resolution (C14).                                          *)
(* Abstract state: db (sequence of footprints in insertion order), query, script.            *)
(* footprint = [fam, asp, runes (set), scripts (set), ttf]; all faces are user provided.       *)
(* Order(db, query, script) is the documented priority:                                       *)
(*   1. per queried family, in query order: the members of exactly that family, best-first     *)
(*      (TrueType file hint first), narrowed by CSS matching - only the first one is tried;    *)
(*   2. fallback: fonts of the queried families (query order), then fonts covering the current *)
(*      script; narrowed;                                                                      *)
(*   3. manually added fonts in insertion order; narrowed;                                     *)
(*   4. fonts covering the current script, in insertion order, not narrowed.                   *)
(* Resolve(r) = first face of Order covering r; if none, any face of db.                      *)
EXTENDS CSSMatch

Idx(db) == [i \in 1..Len(db) |-> i]

(* stable ordering by the file-type hint: TrueType before the others *)
ByHint(db, idx) == SelectSeq(idx, LAMBDA i : db[i].ttf) \o SelectSeq(idx, LAMBDA i : ~db[i].ttf)

NarrowSeq(db, idx, q) ==
  IF Len(idx) = 0 THEN << >>
  ELSE LET C == [k \in 1..Len(idx) |-> db[idx[k]].asp]
           R == Narrow(C, q)
           pos == SelectSeq([k \in 1..Len(idx) |-> k], LAMBDA k : k \in R)
       IN [k \in 1..Len(pos) |-> idx[pos[k]]]

FamilyMembers(db, fam) == SelectSeq(Idx(db), LAMBDA i : db[i].fam = fam)

RECURSIVE ExactStep(_, _, _)
ExactStep(db, fams, q) ==
  IF fams = << >> THEN << >>
  ELSE LET c == NarrowSeq(db, ByHint(db, FamilyMembers(db, Head(fams))), q)
       IN (IF Len(c) = 0 THEN << >> ELSE << c[1] >>) \o ExactStep(db, Tail(fams), q)

(* families of the query without repetition, first occurrence order *)
RECURSIVE Dedup(_, _)
Dedup(s, seen) == IF s = << >> THEN << >>
                  ELSE IF Head(s) \in seen THEN Dedup(Tail(s), seen)
                  ELSE << Head(s) >> \o Dedup(Tail(s), seen \cup {Head(s)})

RECURSIVE StrongStep(_, _)
StrongStep(db, fams) == IF fams = << >> THEN << >> ELSE ByHint(db, FamilyMembers(db, Head(fams))) \o StrongStep(db, Tail(fams))

FallbackStep(db, query, script) ==
  LET fams == Dedup(query.fams, {})
      famset == {fams[i] : i \in DOMAIN fams}
      strong == StrongStep(db, fams)
      weak == ByHint(db, SelectSeq(Idx(db), LAMBDA i : db[i].fam \notin famset /\ script \in db[i].scripts))
  IN NarrowSeq(db, strong \o weak, query.asp)

ManualStep(db, query) == NarrowSeq(db, Idx(db), query.asp)
ScriptStep(db, script) == SelectSeq(Idx(db), LAMBDA i : script \in db[i].scripts)

Order(db, query, script) ==
  ExactStep(db, query.fams, query.asp) \o FallbackStep(db, query, script) \o ManualStep(db, query) \o ScriptStep(db, script)

Covering(db, o, r) == SelectSeq(o, LAMBDA i : r \in db[i].runes)

(* allowed answers for rune r *)
Allowed(db, query, script, r) ==
  LET c == Covering(db, Order(db, query, script), r)
  IN IF Len(c) > 0 THEN {c[1]} ELSE 1..Len(db)
=============================================================================
