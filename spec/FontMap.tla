------------------------------- MODULE FontMap -------------------------------
(* Property specification of font resolution (C14).                                          *)
(* Abstract state: db (sequence of footprints in insertion order), query, script.            *)
(* footprint = [fam, asp, runes (set), scripts (set), ttf]; all faces are user provided.       *)
(* Order(db, query, script) is the documented priority:                                       *)
(*   1. per queried family, in query order: the members of exactly that family, best-first     *)
(*      (TrueType file hint first), narrowed by CSS matching - only the first one is tried;    *)
(*   2. fallback: fonts of the queried families (query order), then fonts covering the current *)
(*      script; narrowed;                                                                      *)
(*   3. manually added fonts in insertion order; narrowed;                                     *)
(*   4. fonts covering the current script, in insertion order, not narrowed.                   *)
(* Resolve(r) = first face of Order covering r; if none, any face of db.                      *)
EXTENDS CSSMatch

Idx(db) == [i \in 1..Len(db) |-> i]

(* stable ordering by the file-type hint: TrueType before the others *)
ByHint(db, idx) == SelectSeq(idx, LAMBDA i : db[i].ttf) \o SelectSeq(idx, LAMBDA i : ~db[i].ttf)

NarrowSeq(db, idx, q) ==
  IF Len(idx) = 0 THEN << >>
  ELSE LET C == [k \in 1..Len(idx) |-> db[idx[k]].asp]
           R == Narrow(C, q)
           pos == SelectSeq([k \in 1..Len(idx) |-> k], LAMBDA k : k \in R)
       IN [k \in 1..Len(pos) |-> idx[pos[k]]]

FamilyMembers(db, fam) == SelectSeq(Idx(db), LAMBDA i : db[i].fam = fam)

RECURSIVE ExactStep(_, _, _)
ExactStep(db, fams, q) ==
  IF fams = << >> THEN << >>
  ELSE LET c == NarrowSeq(db, ByHint(db, FamilyMembers(db, Head(fams))), q)
       IN (IF Len(c) = 0 THEN << >> ELSE << c[1] >>) \o ExactStep(db, Tail(fams), q)

(* families of the query without repetition, first occurrence order *)
RECURSIVE Dedup(_, _)
Dedup(s, seen) == IF s = << >> THEN << >>
                  ELSE IF Head(s) \in seen THEN Dedup(Tail(s), seen)
                  ELSE << Head(s) >> \o Dedup(Tail(s), seen \cup {Head(s)})

RECURSIVE StrongStep(_, _)
StrongStep(db, fams) == IF fams = << >> THEN << >> ELSE ByHint(db, FamilyMembers(db, Head(fams))) \o StrongStep(db, Tail(fams))

FallbackStep(db, query, script) ==
  LET fams == Dedup(query.fams, {})
      famset == {fams[i] : i \in DOMAIN fams}
      strong == StrongStep(db, fams)
      weak == ByHint(db, SelectSeq(Idx(db), LAMBDA i : db[i].fam \notin famset /\ script \in db[i].scripts))
  IN NarrowSeq(db, strong \o weak, query.asp)

ManualStep(db, query) == NarrowSeq(db, Idx(db), query.asp)
ScriptStep(db, script) == SelectSeq(Idx(db), LAMBDA i : script \in db[i].scripts)

Order(db, query, script) ==
  ExactStep(db, query.fams, query.asp) \o FallbackStep(db, query, script) \o ManualStep(db, query) \o ScriptStep(db, script)

Covering(db, o, r) == SelectSeq(o, LAMBDA i : r \in db[i].runes)

(* ---------------------------------------------------------------------------------------------- *)
(* The same priority with family substitution. The substitution tables themselves (a port of the   *)
(* fontconfig configuration) are not specified here: their result for the current query and script *)
(* is a FACT supplied with each observation,                                                        *)
(*   cr : set of <<family, score, strong>> - the expanded family list restricted to the families     *)
(*        of the map (for a query without substitutes: the queried families, score = position,      *)
(*        strong);                                                                                  *)
(*   gen : for each generic family keyword of the query, <<keyword, set of <<family, score, strong>> >> *)
(* What IS specified is how the library must use them (documented at scoredFootprints.Less):        *)
(* strong substitutes before weak ones; among strong ones by score; among weak ones the fonts       *)
(* supporting the current script first, then by score; fonts matched only through the script come   *)
(* after every family match; ties: non-"mono" families first, then TrueType files, then insertion   *)
(* order.                                                                                          *)
MaxScore == 1000000
Entry(cr, fam) == IF \E t \in cr : t[1] = fam THEN CHOOSE t \in cr : t[1] = fam ELSE << fam, MaxScore, FALSE >>
InCrible(cr, fam) == \E t \in cr : t[1] = fam
HasScript(db, i, script) == script # "none" /\ script \in db[i].scripts
Mono(db, i) == db[i].mono
TieLess(db, i, j) == IF Mono(db, i) # Mono(db, j) THEN ~Mono(db, i)
                     ELSE IF db[i].ttf # db[j].ttf THEN db[i].ttf
                     ELSE FALSE
ScoreLess(db, si, sj, i, j) == IF si # sj THEN si < sj ELSE TieLess(db, i, j)
LessC(db, cr, script, i, j) ==
  LET ei == Entry(cr, db[i].fam)
      ej == Entry(cr, db[j].fam)
  IN IF ei[3] # ej[3] THEN ei[3]
     ELSE IF ei[3] THEN ScoreLess(db, ei[2], ej[2], i, j)
     ELSE IF HasScript(db, i, script) # HasScript(db, j, script) THEN HasScript(db, i, script)
     ELSE ScoreLess(db, ei[2], ej[2], i, j)
(* stable sort of a set of indices: ties keep insertion order *)
LessT(db, cr, script, i, j) == LessC(db, cr, script, i, j) \/ (~LessC(db, cr, script, j, i) /\ i < j)
RECURSIVE SortIdx(_, _, _, _)
SortIdx(db, cr, script, S) ==
  IF S = {} THEN << >>
  ELSE LET m == CHOOSE i \in S : \A j \in S \ {i} : LessT(db, cr, script, i, j)
       IN << m >> \o SortIdx(db, cr, script, S \ {m})
Selected(db, cr, script) == SortIdx(db, cr, script, {i \in 1..Len(db) : InCrible(cr, db[i].fam) \/ HasScript(db, i, script)})

IsGenericIn(gen, fam) == \E g \in gen : g[1] = fam
GenCrible(gen, fam) == (CHOOSE g \in gen : g[1] = fam)[2]
(* a generic keyword stands for the first (best) concrete family found for it *)
GenericMembers(db, gen, fam) ==
  LET s == Selected(db, GenCrible(gen, fam), "none")
  IN IF Len(s) = 0 THEN << >> ELSE SelectSeq(s, LAMBDA i : db[i].fam = db[s[1]].fam /\ \A k \in 1..Len(s) : (s[k] = i => \A h \in 1..k : db[s[h]].fam = db[s[1]].fam))
RECURSIVE ExactStepC(_, _, _, _)
ExactStepC(db, fams, q, gen) ==
  IF fams = << >> THEN << >>
  ELSE LET f == Head(fams)
           members == IF IsGenericIn(gen, f) THEN GenericMembers(db, gen, f)
                      ELSE Selected(db, {<< f, 0, TRUE >>}, "none")
           c == NarrowSeq(db, members, q)
       IN (IF Len(c) = 0 THEN << >> ELSE << c[1] >>) \o ExactStepC(db, Tail(fams), q, gen)
FallbackStepC(db, query, script, cr) == NarrowSeq(db, Selected(db, cr, script), query.asp)
OrderC(db, query, script, cr, gen) ==
  ExactStepC(db, query.fams, query.asp, gen) \o FallbackStepC(db, query, script, cr) \o ManualStep(db, query) \o ScriptStep(db, script)
AllowedC(db, query, script, cr, gen, r) ==
  LET c == Covering(db, OrderC(db, query, script, cr, gen), r)
  IN IF Len(c) > 0 THEN {c[1]} ELSE 1..Len(db)

(* allowed answers for rune r *)
Allowed(db, query, script, r) ==
  LET c == Covering(db, Order(db, query, script), r)
  IN IF Len(c) > 0 THEN {c[1]} ELSE 1..Len(db)
=============================================================================
