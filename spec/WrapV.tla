------------------------------- MODULE WrapV -------------------------------
(* Trace validator (monitor) for the wrapping engine: C02, C03, C04, C08.                    *)
(* Events: P (Prepare: carries the scenario), L (one WrapNextLine result), X (abnormal end:  *)
(* panic, no termination) - accepted by no action of the property spec, i.e. always a fail.   *)
(* State mirrors what the property talks about: pos (first rune of the next line), k (lines   *)
(* returned so far), done.                                                                    *)
EXTENDS Wrap, Bidi, TLC, Json, IOUtils

VARIABLES l, sc, pos, k, done, fails, stats
Trace == ndJsonDeserialize(IOEnv.VERIF_TRACE)

NoSc == [n |-> 0]
Init == l = 1 /\ sc = NoSc /\ pos = 0 /\ k = 0 /\ done = FALSE /\ fails = {} /\ stats = [para |-> 0, lines |-> 0, nontriv |-> 0]

F(name, b) == IF b THEN {} ELSE {name}

(* ---- C08 ---- *)
LineLevels(s, ln) ==
  [i \in DOMAIN ln.runs |-> IF ln.runs[i].tr THEN (IF s.cfg.tdir = s.cfg.pdir THEN s.cfg.pdir ELSE s.cfg.pdir + 1)
                            ELSE IF HasRun(s, ln.runs[i].off) THEN s.runs[RunOf(s, ln.runs[i].off)].lvl ELSE s.cfg.pdir]
VisPerm(s, ln) == IsPerm([i \in DOMAIN ln.runs |-> ln.runs[i].vi], Len(ln.runs))
VisL2(s, ln) == [i \in DOMAIN ln.runs |-> ln.runs[i].vi] = Visual(LineLevels(s, ln))

(* trailing-whitespace trimming hits exactly the glyph that is visually last in paragraph   *)
(* direction (among the body runs), if that glyph is whitespace; nothing else is zeroed      *)
InputAdv(s, R, i) ==
  LET run == s.runs[RunOf(s, R.off)]
      sel == SelectSeq(run.g, LAMBDA g : R.off <= Cl(g) /\ Cl(g) < R.off + R.cnt)
  IN IF i <= Len(sel) THEN Adv(sel[i]) - (IF Adv(R.g[i]) = Adv(sel[i]) - Ls(sel[i]) THEN Ls(sel[i]) ELSE 0) ELSE 0
TrimInfo(s, ln) ==
  LET b == Body(ln) IN
       LET lv == [i \in DOMAIN b |-> IF HasRun(s, b[i].off) THEN s.runs[RunOf(s, b[i].off)].lvl ELSE s.cfg.pdir]
           o == L2(lv)
           ri == IF s.cfg.pdir = 0 THEN o[Len(o)] ELSE o[1]
           gi == IF s.cfg.pdir = 0 THEN Len(b[ri].g) ELSE 1
           Z == {<<i, j>> \in UNION {{<<i2, j2>> : j2 \in DOMAIN b[i2].g} : i2 \in DOMAIN b} :
                   Sp(b[i].g[j]) /\ Adv(b[i].g[j]) = 0 /\ HasRun(s, b[i].off) /\ InputAdv(s, b[i], j) # 0}
       IN [z |-> Z, t |-> <<ri, gi>>, sp |-> Len(b[ri].g) >= 1 /\ Sp(b[ri].g[gi]), zero |-> Len(b[ri].g) >= 1 /\ Adv(b[ri].g[gi]) = 0]

(* no glyph other than the visually last one is zeroed by trimming *)
TrimTarget(s, ln) == LET b == Body(ln) IN Len(b) = 0 \/ (IF s.cfg.notrim THEN TrimInfo(s, ln).z = {} ELSE TrimInfo(s, ln).z \subseteq {TrimInfo(s, ln).t})
(* and that one is zeroed when it is whitespace and trimming is enabled. WrapParagraph has a  *)
(* documented single-run fast path that returns the input run untouched, so this half is      *)
(* judged on the WrapNextLine API only.                                                        *)
TrimApplied(s, ln) == LET b == Body(ln) IN
  (Len(b) > 0 /\ ~s.cfg.notrim /\ s.api = "next" /\ TrimInfo(s, ln).sp) => TrimInfo(s, ln).zero

LineFails(s, ln, p, kk) ==
       F("NonEmpty", NonEmpty(s, ln))
  \cup F("Contig", Contig(s, ln, p))
  \cup F("Piece", Piece(s, ln))
  \cup F("Sum", Sum(s, ln))
  \cup F("Cover", Cover(s, ln))
  \cup F("LegalEnd", LegalEnd(s, ln, p))
  \cup F("NoIntraCluster", NoIntraCluster(s, ln))
  \cup F("Mandatory", Mandatory(s, ln, p))
  \cup F("SplitOnlyWhenNecessary", SplitOnlyWhenNecessary(s, ln, p, kk))
  \cup F("Fits", Fits(s, ln, p, kk))
  \cup F("Greedy", Greedy(s, ln, p, kk))
  \cup F("TruncGreedy", TruncGreedy(s, ln, p, kk))
  \cup F("TruncCount", TruncCount(s, kk))
  \cup F("Truncator", Truncator(s, ln, kk))
  \cup F("VisPerm", VisPerm(s, ln))
  \cup F("VisL2", VisL2(s, ln))
  \cup F("TrimTarget", TrimTarget(s, ln))
  \cup F("TrimApplied", TrimApplied(s, ln))
  \cup F("Progress", ln.done \/ ln.next > p)

Prepare == /\ l <= Len(Trace) /\ Trace[l].ev = "P"
           /\ sc' = Trace[l] /\ pos' = 0 /\ k' = 0 /\ done' = FALSE
           /\ fails' = fails \cup (IF k > 0 /\ ~done THEN {[line |-> l, pred |-> "Terminates"]} ELSE {})
           /\ stats' = [stats EXCEPT !.para = @ + 1]
           /\ l' = l + 1

Line == /\ l <= Len(Trace) /\ Trace[l].ev = "L"
        /\ LET ln == Trace[l]
               fs == IF done THEN {"AfterDone"} ELSE LineFails(sc, ln, pos, k + 1)
           IN /\ fails' = fails \cup {[line |-> l, pred |-> f] : f \in fs}
              /\ pos' = ln.next /\ k' = k + 1 /\ done' = ln.done
              /\ stats' = [stats EXCEPT !.lines = @ + 1, !.nontriv = @ + (IF (k = 1 /\ ~done) \/ (k = 0 /\ HasTruncator(ln)) THEN 1 ELSE 0)]
        /\ sc' = sc /\ l' = l + 1

Abnormal == /\ l <= Len(Trace) /\ Trace[l].ev = "X"
            /\ fails' = fails \cup {[line |-> l, pred |-> "Total"]}
            /\ done' = TRUE /\ UNCHANGED <<sc, pos, k, stats>> /\ l' = l + 1

(* the caller abandons the paragraph before it is finished (the wrapper object is re-used afterwards) *)
Abandon == /\ l <= Len(Trace) /\ Trace[l].ev = "A"
           /\ done' = TRUE /\ UNCHANGED <<sc, pos, k, fails, stats>> /\ l' = l + 1

Next == Prepare \/ Line \/ Abnormal \/ Abandon
Keep == TLCSet(1, fails) /\ TLCSet(2, stats)
Post == /\ TLCGet("stats").diameter - 1 = Len(Trace)
        /\ JsonSerialize(IOEnv.VERIF_OUT, [n |-> Len(Trace), fails |-> TLCGet(1), stats |-> TLCGet(2)])
=============================================================================
