-------------------------------- MODULE Bidi --------------------------------
(* Rule L2 of UAX #9 on a sequence of embedding levels (one per run on a line):             *)
(* from the highest level down to the lowest odd level, reverse every maximal sequence of   *)
(* elements at that level or higher. Result: logical indices in visual left-to-right order. *)
EXTENDS Integers, Sequences, FiniteSets

Rev(s) == [i \in 1..Len(s) |-> s[Len(s) + 1 - i]]

RECURSIVE SegEnd(_, _, _, _)
SegEnd(order, lv, L, j) == IF j + 1 <= Len(order) /\ lv[order[j + 1]] >= L THEN SegEnd(order, lv, L, j + 1) ELSE j

RECURSIVE ApplyL(_, _, _, _)
ApplyL(order, lv, L, i) ==
  IF i > Len(order) THEN << >>
  ELSE IF lv[order[i]] < L THEN << order[i] >> \o ApplyL(order, lv, L, i + 1)
  ELSE LET j == SegEnd(order, lv, L, i) IN Rev(SubSeq(order, i, j)) \o ApplyL(order, lv, L, j + 1)

RECURSIVE Down(_, _, _, _)
Down(order, lv, L, lowOdd) == IF L < lowOdd THEN order ELSE Down(ApplyL(order, lv, L, 1), lv, L - 1, lowOdd)

(* lv: sequence of levels. Result: sequence of logical indices, leftmost first *)
L2(lv) ==
  LET n == Len(lv)
      S == {lv[i] : i \in 1..n}
      hi == CHOOSE x \in S : \A y \in S : x >= y
      odd == {x \in S : x % 2 = 1}
  IN IF n = 0 THEN << >>
     ELSE IF odd = {} THEN [i \in 1..n |-> i]
     ELSE Down([i \in 1..n |-> i], lv, hi, CHOOSE x \in odd : \A y \in odd : x <= y)

(* visual index (0 = leftmost) of every logical element *)
Visual(lv) == LET o == L2(lv) IN [i \in 1..Len(lv) |-> (CHOOSE p \in 1..Len(lv) : o[p] = i) - 1]

IsPerm(vis, n) == Len(vis) = n /\ {vis[i] : i \in 1..n} = 0..(n - 1)
=============================================================================
