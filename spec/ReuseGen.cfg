SPECIFICATION Spec
CONSTANTS D = 3
  Kind = "shaper"
INVARIANT Emit
CHECK_DEADLOCK FALSE
