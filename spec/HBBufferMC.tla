------------------------------ MODULE HBBufferMC ------------------------------
(* Passes over a small buffer built from the primitives of HBBuffer.tla (flows M and G).           *)
(* A pass (output mode) walks the buffer; at each item it may copy it, form a ligature of 2 or 3    *)
(* items (mergeClusters + replaceGlyphIndex + skips, the core of ligateInput), substitute one item  *)
(* by two (replaceGlyphs), delete it (deleteGlyph), or flag a contextual match reaching back into   *)
(* the out-buffer and ahead into the input (unsafeToBreakFromOutbuffer), like a chained context     *)
(* rule does before its nested lookups run. Between passes an input-side unsafeToBreak may occur.   *)
(* Dir = "inc": clusters in logical order (native direction); "dec": the buffer was reversed by      *)
(* ensureNativeDirection (non-native direction).                                                   *)
(* hist records the primitive operations; it is hidden from the state by the VIEW.                 *)
EXTENDS HBBuffer, TLC, Json
CONSTANTS N, Dir, MaxPasses, MaxFlags, Ops   \* Ops: the substitution kinds a pass may use, subset of {"lig", "mult", "del", "raw"}
VARIABLES st, deps, passes, nflags, nmult, gid, hist

vars == <<st, deps, passes, nflags, nmult, gid, hist>>
View == <<st, deps, passes, nflags, nmult>>

Init0 == [i \in 1..N |-> [g |-> i, cl |-> IF Dir = "dec" THEN N - i ELSE i - 1, fl |-> FALSE]]   \* Dir = "raw": logical order, reversals allowed
Init == /\ st = [info |-> Init0, out |-> << >>, idx |-> 0, have |-> FALSE]
        /\ deps = {} /\ passes = 0 /\ nflags = 0 /\ nmult = 0 /\ gid = 100 /\ hist = << >>

Log(op, x, y) == hist' = Append(hist, [op |-> op, x |-> x, y |-> y])
Log2(a, b) == hist' = hist \o a \o b
E(op, x, y) == [op |-> op, x |-> x, y |-> y]
Left == Len(st.info) - st.idx

Begin == /\ ~st.have /\ passes < MaxPasses
         /\ st' = ClearOutput(st) /\ passes' = passes + 1 /\ nflags' = 0
         /\ Log("clearOutput", 0, 0) /\ UNCHANGED <<deps, nmult, gid>>
Copy == /\ st.have /\ Left >= 1
        /\ st' = NextGlyph(st) /\ Log("next", 0, 0) /\ UNCHANGED <<deps, passes, nflags, nmult, gid>>
Ligate(n) == /\ "lig" \in Ops /\ st.have /\ Left >= n
             /\ LET m == MergeClusters(st, st.idx, st.idx + n)
                    r == ReplaceGlyphIndex(m, gid)
                    f == IF n = 2 THEN SkipGlyph(r) ELSE SkipGlyph(SkipGlyph(r))
                IN st' = f
             /\ hist' = hist \o << E("merge", st.idx, st.idx + n), E("replaceIndex", gid, 0) >> \o [i \in 1..(n - 1) |-> E("skip", 0, 0)]
             /\ gid' = gid + 1 /\ UNCHANGED <<deps, passes, nflags, nmult>>
Multiply == /\ "mult" \in Ops /\ st.have /\ Left >= 1 /\ nmult < 1
            /\ st' = ReplaceGlyphs(st, 1, gid) /\ Log("replaceGlyphs", 1, gid)
            /\ gid' = gid + 2 /\ nmult' = nmult + 1 /\ UNCHANGED <<deps, passes, nflags>>
Delete == /\ "del" \in Ops /\ st.have /\ Left >= 1
          /\ st' = DeleteGlyph(st) /\ Log("delete", 0, 0) /\ UNCHANGED <<deps, passes, nflags, nmult, gid>>
(* a contextual match: nb items of backtrack in the out-buffer, nl items of input + lookahead *)
FlagCtx(nb, nl) == /\ st.have /\ nflags < MaxFlags /\ nb <= Len(st.out) /\ Left >= nl
                   /\ LET start == Len(st.out) - nb
                          end == st.idx + nl
                      IN /\ st' = UnsafeToBreakFromOut(st, start, end)
                         /\ deps' = deps \cup {DepOf(st, "flagOut", start, end)}
                         /\ Log("flagOut", start, end)
                   /\ nflags' = nflags + 1 /\ UNCHANGED <<passes, nmult, gid>>
(* an input-side flag between passes (e.g. the joining analysis) *)
FlagIn(a, b) == /\ ~st.have /\ passes < MaxPasses /\ nflags < MaxFlags /\ b <= Len(st.info)
                /\ st' = UnsafeToBreak(st, a, b) /\ deps' = deps \cup {DepOf(st, "flag", a, b)}
                /\ Log("flag", a, b) /\ nflags' = nflags + 1 /\ UNCHANGED <<passes, nmult, gid>>
(* raw primitives used by other parts of the engine (AAT ligatures rewind with moveTo and merge in the   *)
(* out-buffer; ensureNativeDirection and the end of shaping reverse the buffer)                         *)
RawMoveTo(i) == /\ "raw" \in Ops /\ st.have /\ nflags < MaxFlags /\ i <= Len(st.out) + Left /\ i # Len(st.out)
                /\ st' = MoveTo(st, i) /\ Log("moveTo", i, 0) /\ nflags' = nflags + 1 /\ UNCHANGED <<deps, passes, nmult, gid>>
RawMergeOut(a, b) == /\ "raw" \in Ops /\ st.have /\ nflags < MaxFlags /\ b <= Len(st.out)
                     /\ st' = MergeOutClusters(st, a, b) /\ Log("mergeOut", a, b) /\ nflags' = nflags + 1 /\ UNCHANGED <<deps, passes, nmult, gid>>
RawReverse == /\ "raw" \in Ops /\ ~st.have /\ passes < MaxPasses /\ nflags < MaxFlags
              /\ \/ st' = Reverse(st) /\ Log("reverse", 0, 0)
                 \/ st' = ReverseClusters(st) /\ Log("reverseClusters", 0, 0)
              /\ nflags' = nflags + 1 /\ UNCHANGED <<deps, passes, nmult, gid>>
End == /\ st.have /\ Left = 0
       /\ st' = SwapBuffers(st) /\ Log("swap", 0, 0) /\ UNCHANGED <<deps, passes, nflags, nmult, gid>>

Next == \/ Begin \/ Copy \/ Multiply \/ Delete \/ End
        \/ \E n \in 2..3 : Ligate(n)
        \/ \E nb \in 0..2 : \E nl \in 1..3 : FlagCtx(nb, nl)
        \/ \E a \in 0..(N - 1) : \E b \in (a + 2)..(a + 3) : FlagIn(a, b)
        \/ RawReverse \/ \E i \in 0..(N + 2) : RawMoveTo(i)
        \/ \E a \in 0..N : \E b \in (a + 2)..(a + 3) : RawMergeOut(a, b)
Spec == Init /\ [][Next]_vars

InvMonotone == Monotone(st, Dir)
InvMonotoneAny == MonotoneAny(st)
InvFlagsCover == FlagsCover(st, deps)
(* flow G: a finished behaviour (all passes done) is printed for the replay *)
Done == ~st.have /\ passes = MaxPasses
Emit == Done => PrintT("H|" \o ToJson([dir |-> Dir, n |-> N, ops |-> hist]))
=============================================================================
