------------------------------ MODULE CSSMatch ------------------------------
(* CSS Fonts section 5.2 (font style matching) on integer-scaled aspects:                    *)
(* aspect = [st (stretch x 1000), sy (1 normal, 2 italic/oblique), w (weight)], 0 = unset.     *)
(* Narrow(C, req) = the members of the candidate sequence C (indices) that survive narrowing   *)
(* by stretch, then style, then weight.                                                        *)
EXTENDS Integers, Sequences, FiniteSets

Desired(q) == [st |-> IF q.st = 0 THEN 1000 ELSE q.st, sy |-> IF q.sy = 0 THEN 1 ELSE q.sy, w |-> IF q.w = 0 THEN 400 ELSE q.w]

MinOf(S) == CHOOSE x \in S : \A y \in S : x <= y
MaxOf(S) == CHOOSE x \in S : \A y \in S : x >= y

(* stretch: exact, else for a request <= normal the nearest narrower then the nearest wider, *)
(* else the converse                                                                          *)
StretchPick(S, s) ==
  IF s \in S THEN s
  ELSE LET narrower == {x \in S : x < s}
           wider == {x \in S : x > s}
       IN IF s <= 1000
          THEN IF narrower # {} THEN MaxOf(narrower) ELSE MinOf(wider)
          ELSE IF wider # {} THEN MinOf(wider) ELSE MaxOf(narrower)

(* style: italic (oblique is folded into italic by this library): italic, normal;            *)
(* normal: normal, italic                                                                     *)
StylePick(S, y) == IF y \in S THEN y ELSE IF y = 1 THEN 2 ELSE 1

(* weight: the three search orders *)
WeightPick(S, w) ==
  IF w \in S THEN w
  ELSE LET lighter == {x \in S : x < w}
           bolder == {x \in S : x > w}
       IN IF 400 <= w /\ w <= 500
          THEN LET upto500 == {x \in bolder : x <= 500} IN
               IF upto500 # {} THEN MinOf(upto500)
               ELSE IF lighter # {} THEN MaxOf(lighter)
               ELSE MinOf(bolder)
          ELSE IF w < 400
          THEN IF lighter # {} THEN MaxOf(lighter) ELSE MinOf(bolder)
          ELSE IF bolder # {} THEN MinOf(bolder) ELSE MaxOf(lighter)

Narrow(C, req) ==
  LET q == Desired(req)
      I0 == DOMAIN C
      st == StretchPick({C[i].st : i \in I0}, q.st)
      I1 == {i \in I0 : C[i].st = st}
      sy == StylePick({C[i].sy : i \in I1}, q.sy)
      I2 == {i \in I1 : C[i].sy = sy}
      w == WeightPick({C[i].w : i \in I2}, q.w)
  IN {i \in I2 : C[i].w = w}

(* what the property statement promises about the result, independent of the rules *)
Uniform(C, R) == \A i, j \in R : C[i].st = C[j].st /\ C[i].sy = C[j].sy /\ C[i].w = C[j].w
WellFormed(C, req) == LET R == Narrow(C, req) IN R # {} /\ R \subseteq DOMAIN C /\ Uniform(C, R)
Exact(C, req) == LET q == Desired(req) IN
  (\E i \in DOMAIN C : C[i].st = q.st /\ C[i].sy = q.sy /\ C[i].w = q.w)
     => Narrow(C, req) = {i \in DOMAIN C : C[i].st = q.st /\ C[i].sy = q.sy /\ C[i].w = q.w}
=============================================================================
