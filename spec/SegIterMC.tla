----------------------------- MODULE SegIterMC -----------------------------
(* Model of segmenter.attributeIterator.next over an arbitrary attribute array whose last  *)
(* entry is a boundary (rules LB3 / GB2 / WB2). TLC checks, for all arrays of length <= N,   *)
(* that the emitted segments form a partition and that iteration terminates.                *)
EXTENDS SegIter, TLC
CONSTANT N
VARIABLES attrs, n, pos, lastBreak, emitted, done, phase

vars == <<attrs, n, pos, lastBreak, emitted, done, phase>>

Init == /\ n = 0 /\ attrs = <<TRUE>> /\ pos = 0 /\ lastBreak = 0 /\ emitted = << >> /\ done = FALSE /\ phase = "build"

(* build: choose the array one flag at a time (flags for positions 0..n; stored 1-based) *)
Grow == /\ phase = "build" /\ n < N
        /\ \E b \in BOOLEAN : attrs' = Append(attrs, b)
        /\ n' = n + 1
        /\ UNCHANGED <<pos, lastBreak, emitted, done, phase>>
Start == /\ phase = "build" /\ n >= 1 /\ attrs[n + 1] = TRUE
         /\ phase' = "iter" /\ UNCHANGED <<attrs, n, pos, lastBreak, emitted, done>>

RECURSIVE Scan(_)
Scan(p) == IF p > n THEN p ELSE IF attrs[p + 1] THEN p ELSE Scan(p + 1)

NextCall == /\ phase = "iter" /\ ~done
            /\ LET lb == pos
                   p == Scan(pos + 1)
               IN /\ lastBreak' = lb
                  /\ pos' = p
                  /\ IF p <= n THEN /\ emitted' = Append(emitted, <<lb, p - lb>>) /\ done' = FALSE
                               ELSE /\ emitted' = emitted /\ done' = TRUE
            /\ UNCHANGED <<attrs, n, phase>>

Next == Grow \/ Start \/ NextCall
Spec == Init /\ [][Next]_vars /\ WF_vars(NextCall)

Flags == [i \in 0..n |-> IF attrs[i + 1] THEN 1 ELSE 0]
PartitionAtEnd == done => IsPartition(emitted, n) /\ EndsAre(emitted, Flags, n)
PrefixOk == phase = "iter" => \A i \in 1..Len(emitted) : emitted[i][2] >= 1
Terminates == <>(phase = "iter" => done)
EventuallyDone == (phase = "iter") ~> done
=============================================================================
