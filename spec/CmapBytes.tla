------------------------------ MODULE CmapBytes ------------------------------
(* An independent decoder of the OpenType `cmap` table (C10: "character-to-glyph mapping ...    *)
(* equal those computed by an independent OpenType decoder"), written from the OpenType          *)
(* specification, not from the library: header + encoding records, choice of the Unicode         *)
(* subtable, and the mapping of formats 4, 6, 10, 12 and 13.                                      *)
(* The table is given as a sequence w of big-endian 16-bit words (every field of these formats   *)
(* is 16-bit aligned); byte offsets are used as in the specification.                             *)
(* Glyph 0 is the missing glyph: "not mapped" and "mapped to 0" are the same answer (0).           *)
(* A probe whose decoding would read outside the table has no answer (-1) and is not compared.    *)
EXTENDS Integers, Sequences, FiniteSets

MaxRune == 1114111
U16(w, b) == IF b >= 0 /\ b % 2 = 0 /\ (b \div 2) + 1 <= Len(w) THEN w[(b \div 2) + 1] ELSE -1
(* 32-bit fields: only values below 2^31 can be represented (TLC integers); larger ones are -1  *)
U32(w, b) == LET h == U16(w, b)  lo == U16(w, b + 2) IN
             IF h < 0 \/ lo < 0 \/ h >= 32768 THEN -1 ELSE h * 65536 + lo

(* ---- header and encoding records *)
NumRecords(w) == U16(w, 2)
Rec(w, i) == [platform |-> U16(w, 4 + 8 * (i - 1)), encoding |-> U16(w, 6 + 8 * (i - 1)), off |-> U32(w, 8 + 8 * (i - 1))]
Format(w, o) == U16(w, o)
Supported == {4, 6, 10, 12, 13}
(* Unicode subtables in decreasing order of preference: full repertoire before BMP, Windows      *)
(* before Unicode platform (the order every mainstream implementation, and the reference shaper, *)
(* uses). A symbol subtable (3,0) is remapped by the library and a Macintosh one is keyed by a    *)
(* legacy encoding: faces that have a symbol subtable or no Unicode subtable are not judged.      *)
Pref == << <<3, 10>>, <<0, 6>>, <<0, 4>>, <<3, 1>>, <<0, 3>>, <<0, 2>>, <<0, 1>>, <<0, 0>> >>
Recs(w) == {i \in 1..NumRecords(w) : Rec(w, i).off >= 0 /\ Format(w, Rec(w, i).off) \in Supported \cup {0}}
HasSymbol(w) == \E i \in Recs(w) : Rec(w, i).platform = 3 /\ Rec(w, i).encoding = 0
Matching(w, p) == {i \in Recs(w) : Rec(w, i).platform = Pref[p][1] /\ Rec(w, i).encoding = Pref[p][2]}
Min(S) == CHOOSE x \in S : \A y \in S : x <= y
Chosen(w) == LET ps == {p \in DOMAIN Pref : Matching(w, p) # {}} IN
             IF ps = {} \/ HasSymbol(w) THEN 0 ELSE Min(Matching(w, Min(ps)))
Judged(w) == /\ Len(w) >= 2 /\ NumRecords(w) >= 1 /\ Chosen(w) # 0
             /\ Format(w, Rec(w, Chosen(w)).off) \in Supported

(* ---- sorted segment lists and binary search: least index in lo..hi whose end (2nd field) is   *)
(* >= r, hi + 1 if there is none (segments are ascending in well-formed fonts)                     *)
RECURSIVE BSearch(_, _, _, _)
BSearch(s, r, lo, hi) == IF lo > hi THEN lo
                         ELSE LET m == (lo + hi) \div 2 IN
                              IF s[m][2] >= r THEN BSearch(s, r, lo, m - 1) ELSE BSearch(s, r, m + 1, hi)
SortedEnds(s) == \A i \in 1..(Len(s) - 1) : s[i][2] < s[i + 1][1]

(* ---- format 4: segment i = <<startCode, endCode, idDelta, idRangeOffset, address of the       *)
(* idRangeOffset word>>                                                                            *)
Segs4(w, o) == LET sc2 == U16(w, o + 6)  n == sc2 \div 2 IN
  [i \in 1..n |-> << U16(w, o + 16 + sc2 + 2 * (i - 1)), U16(w, o + 14 + 2 * (i - 1)),
                     U16(w, o + 16 + 2 * sc2 + 2 * (i - 1)), U16(w, o + 16 + 3 * sc2 + 2 * (i - 1)),
                     o + 16 + 3 * sc2 + 2 * (i - 1) >>]
Dec4(w, S, r) ==
  IF r > 65535 THEN 0
  ELSE LET i == BSearch(S, r, 1, Len(S)) IN
       IF i > Len(S) \/ S[i][1] > r THEN 0
       ELSE IF S[i][4] = 0 THEN (r + S[i][3]) % 65536
       ELSE LET g == U16(w, S[i][5] + S[i][4] + 2 * (r - S[i][1])) IN
            IF g < 0 THEN -1 ELSE IF g = 0 THEN 0 ELSE (g + S[i][3]) % 65536
(* points where the decoded function of format 4 may change its shape *)
Break4(S) == UNION {({S[i][1] - 1, S[i][1], S[i][2], S[i][2] + 1}
                     \cup (IF S[i][4] = 0 THEN {65536 - S[i][3] - 1, 65536 - S[i][3], 65536 - S[i][3] + 1} \cap (S[i][1]..S[i][2])
                           ELSE S[i][1]..S[i][2])) : i \in DOMAIN S}

(* ---- formats 12 and 13: group i = <<startCharCode, endCharCode, glyph>> *)
Groups(w, o) == LET n == U32(w, o + 12) IN
  [i \in 1..n |-> << U32(w, o + 16 + 12 * (i - 1)), U32(w, o + 20 + 12 * (i - 1)), U32(w, o + 24 + 12 * (i - 1)) >>]
Dec12(G, r, many) ==
  LET i == BSearch(G, r, 1, Len(G)) IN
  IF i > Len(G) \/ G[i][1] > r THEN 0 ELSE IF many THEN G[i][3] ELSE G[i][3] + (r - G[i][1])
BreakG(G) == UNION {{G[i][1] - 1, G[i][1], G[i][2], G[i][2] + 1} : i \in DOMAIN G}

(* ---- formats 6 and 10: a dense array from a first code *)
First6(w, o) == IF Format(w, o) = 6 THEN U16(w, o + 6) ELSE U32(w, o + 12)
Count6(w, o) == IF Format(w, o) = 6 THEN U16(w, o + 8) ELSE U32(w, o + 16)
Dec6(w, o, r) == LET f == First6(w, o)  n == Count6(w, o)  base == IF Format(w, o) = 6 THEN o + 10 ELSE o + 20 IN
                 IF r < f \/ r >= f + n THEN 0 ELSE U16(w, base + 2 * (r - f))
Break6(w, o) == (First6(w, o) - 1)..(First6(w, o) + Count6(w, o))

(* ---- the library's answer, logged in run-length form <<lo, hi, g, d>> (Cmap.tla) *)
LookAt(look, r) == LET i == BSearch(look, r, 1, Len(look)) IN
                   IF i > Len(look) \/ look[i][1] > r THEN 0 ELSE look[i][3] + look[i][4] * (r - look[i][1])
BreakL(look) == UNION {{look[i][1] - 1, look[i][1], look[i][2], look[i][2] + 1} : i \in DOMAIN look}

(* Both functions are affine with slope 0 or 1 (or constantly "missing") between two consecutive  *)
(* probes, except on the array-mapped stretches, which are probed point by point: agreeing on the  *)
(* probes is agreeing on every code point.                                                         *)
Mismatches(w, look) ==
  LET o == Rec(w, Chosen(w)).off
      f == Format(w, o)
      S == IF f = 4 THEN Segs4(w, o) ELSE IF f \in {12, 13} THEN Groups(w, o) ELSE << >>
      Dec(r) == IF f = 4 THEN Dec4(w, S, r) ELSE IF f \in {12, 13} THEN Dec12(S, r, f = 13) ELSE Dec6(w, o, r)
      P == ((IF f = 4 THEN Break4(S) ELSE IF f \in {12, 13} THEN BreakG(S) ELSE Break6(w, o)) \cup BreakL(look) \cup {0, MaxRune}) \cap (0..MaxRune)
  IN {r \in P : Dec(r) # -1 /\ Dec(r) # LookAt(look, r)}
(* the table is one the decoder's assumptions hold for (ascending segments) *)
WellFormed(w) == LET o == Rec(w, Chosen(w)).off
                     f == Format(w, o)
                     S == IF f = 4 THEN Segs4(w, o) ELSE IF f \in {12, 13} /\ U32(w, o + 12) >= 0 THEN Groups(w, o) ELSE << >>
                 IN IF f = 4 THEN SortedEnds(S) /\ \A i \in DOMAIN S : S[i][1] >= 0 /\ S[i][1] <= S[i][2] /\ S[i][3] >= 0 /\ S[i][4] >= 0
                    ELSE IF f \in {12, 13} THEN U32(w, o + 12) >= 0 /\ SortedEnds(S) /\ \A i \in DOMAIN S : S[i][1] >= 0 /\ S[i][1] <= S[i][2] /\ S[i][3] >= 0
                    ELSE First6(w, o) >= 0 /\ Count6(w, o) >= 0
=============================================================================
