SPECIFICATION Spec
INVARIANT TypeOK
INVARIANT RoundTrip
PROPERTY ProgressionIndependent
PROPERTY AxisIndependent
PROPERTY SidewaysCoupling
CHECK_DEADLOCK FALSE
