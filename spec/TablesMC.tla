------------------------------- MODULE TablesMC -------------------------------
(* Flow M: for every sorted disjoint table of <= K ranges over 0..N (built range by range),    *)
(* bisection returns what the linear scan returns, for every x.                                *)
EXTENDS Tables, TLC
CONSTANTS K, N
VARIABLES t
Init == t = << >>
Add == /\ Len(t) < K
       /\ \E lo \in 0..N, hi \in 0..N, v \in 1..2 :
            /\ lo <= hi /\ (IF Len(t) = 0 THEN TRUE ELSE t[Len(t)][2] < lo)
            /\ t' = Append(t, << lo, hi, v >>)
Spec == Init /\ [][Add]_t
BisectEqLinear == \A x \in 0..N : Bisect(t, x, 0, Len(t)) = Linear(t, x)
=============================================================================
