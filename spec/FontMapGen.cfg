SPECIFICATION Spec
CONSTANT D = 3
INVARIANT Emit
CHECK_DEADLOCK FALSE
