SPECIFICATION Spec
CONSTANTS
  N = 4
  Dir = "inc"
  MaxPasses = 2
  MaxFlags = 2
  Ops = {"lig", "mult", "del"}
VIEW View
CHECK_DEADLOCK FALSE
INVARIANT InvMonotone
INVARIANT InvFlagsCover
