------------------------------ MODULE FontIndex ------------------------------
(* The system font index (C16): a file system of font files, the index obtained by scanning    *)
(* it, incremental refresh keyed by (path, modification time), and the cache file with a       *)
(* non-atomic write that a crash can tear.                                                      *)
(*   fs      : path -> [c (content id), m (mtime)]            (partial function as a set of recs) *)
(*   index   : set of [p, m, c]   what the last scan recorded                                    *)
(*   cache   : [st: "absent" | "complete" | "torn", idx, k]                                       *)
(* Assumption made explicit: every write of file content gets an mtime never used before for that  *)
(* path (newer, or older for a restored file); Touch changes the mtime only; Rename keeps it.       *)
EXTENDS Integers, Sequences, FiniteSets, TLC, Json
CONSTANTS D, Paths, Contents
VARIABLES fs, clock, index, cache, hist

vars == <<fs, clock, index, cache, hist>>

PathsIn(f) == {x.p : x \in f}
Scratch(f) == {[p |-> x.p, m |-> x.m, c |-> x.c] : x \in f}
(* the incremental algorithm of scan.go: reuse an entry when path and mtime are unchanged *)
Incremental(idx, f) ==
  {IF \E e \in idx : e.p = x.p /\ e.m = x.m
   THEN CHOOSE e \in idx : e.p = x.p /\ e.m = x.m
   ELSE [p |-> x.p, m |-> x.m, c |-> x.c] : x \in f}

Init == fs = {} /\ clock = 1 /\ index = {} /\ cache = [st |-> "absent", idx |-> {}, k |-> 0] /\ hist = << >>

Log(o) == hist' = Append(hist, o)
Write(p, c) == /\ fs' = {x \in fs : x.p # p} \cup {[p |-> p, c |-> c, m |-> clock]}
               /\ clock' = clock + 1 /\ Log([op |-> "Write", p |-> p, c |-> c]) /\ UNCHANGED <<index, cache>>
(* a file restored from elsewhere keeps an OLDER modification time (mv, cp -p, package restore): the    *)
(* clock is not monotone, only distinct - a changed content never comes with the same (path, mtime)     *)
WriteOld(p, c) == /\ fs' = {x \in fs : x.p # p} \cup {[p |-> p, c |-> c, m |-> 0 - clock]}
                  /\ clock' = clock + 1 /\ Log([op |-> "WriteOld", p |-> p, c |-> c]) /\ UNCHANGED <<index, cache>>
Remove(p) == /\ p \in PathsIn(fs) /\ fs' = {x \in fs : x.p # p}
             /\ Log([op |-> "Remove", p |-> p]) /\ UNCHANGED <<clock, index, cache>>
Touch(p) == /\ p \in PathsIn(fs)
            /\ fs' = {IF x.p = p THEN [x EXCEPT !.m = clock] ELSE x : x \in fs}
            /\ clock' = clock + 1 /\ Log([op |-> "Touch", p |-> p]) /\ UNCHANGED <<index, cache>>
Rename(p, q) == /\ p \in PathsIn(fs) /\ p # q
                /\ fs' = {x \in fs : x.p # p /\ x.p # q} \cup {[x EXCEPT !.p = q] : x \in {y \in fs : y.p = p}}
                /\ Log([op |-> "Rename", p |-> p, q |-> q]) /\ UNCHANGED <<clock, index, cache>>
Refresh == /\ index' = Incremental(index, fs) /\ Log([op |-> "Refresh"]) /\ UNCHANGED <<fs, clock, cache>>
(* cache file: create-truncate, then the bytes, then close; a crash may leave any prefix *)
Save == /\ cache' = [st |-> "complete", idx |-> index, k |-> 0] /\ Log([op |-> "Save"]) /\ UNCHANGED <<fs, clock, index>>
Crash == /\ cache.st = "complete" /\ \E k \in 0..2 : cache' = [cache EXCEPT !.st = "torn", !.k = k]
         /\ Log([op |-> "Crash"]) /\ UNCHANGED <<fs, clock, index>>
(* reading a torn file gives an error (start from scratch) or the complete index *)
Load == /\ cache.st # "absent"
        /\ index' = IF cache.st = "complete" THEN cache.idx ELSE {}
        /\ Log([op |-> "Load"]) /\ UNCHANGED <<fs, clock, cache>>

Next == /\ Len(hist) < D
        /\ \/ \E p \in Paths, c \in Contents : Write(p, c) \/ WriteOld(p, c)
           \/ \E p \in Paths : Remove(p) \/ Touch(p)
           \/ \E p, q \in Paths : Rename(p, q)
           \/ Refresh \/ Save \/ Crash \/ Load
Spec == Init /\ [][Next]_vars

(* C16: after a refresh the index is what a scan from scratch gives *)
LastIs(name) == Len(hist) > 0 /\ hist[Len(hist)].op = name
RefreshEqScratch == LastIs("Refresh") => index = Scratch(fs)
(* the invariant that makes it inductive: every recorded entry whose (path, mtime) is still on  *)
(* disk has the content that is on disk                                                          *)
EntriesFaithful == \A e \in index : \A x \in fs : (x.p = e.p /\ x.m = e.m) => x.c = e.c
CacheFaithful == \A e \in cache.idx : \A x \in fs : (x.p = e.p /\ x.m = e.m) => x.c = e.c

(* flow G: histories that end with a Refresh are printed for the harness *)
Emit == (LastIs("Refresh") /\ \E i \in DOMAIN hist : hist[i].op \in {"Write", "WriteOld"}) => PrintT("H|" \o ToJson(hist))
=============================================================================
