------------------------------- MODULE ItemizeV -------------------------------
EXTENDS Itemize, TLC, Json, IOUtils
VARIABLES l, fails, nontriv
Trace == ndJsonDeserialize(IOEnv.VERIF_TRACE)
Init == l = 1 /\ fails = {} /\ nontriv = 0
F(name, b) == IF b THEN {} ELSE {name}
Step == /\ l <= Len(Trace)
        /\ LET e == Trace[l]
               bad == IF e.p # "ok" THEN {"Total"}
                      ELSE IF ~Partition(e.i, e.runs) THEN {"Partition"}
                      ELSE F("Untouched", Untouched(e.i, e.runs)) \cup F("BidiUniform", BidiUniform(e.i, e.f, e.runs))
                           \cup F("ScriptUniform", ScriptUniform(e.i, e.f, e.runs)) \cup F("OrientUniform", OrientUniform(e.i, e.runs))
                           \cup F("FaceUniform", FaceUniform(e.i, e.runs)) \cup F("LangCompatible", LangCompatible(e.i, e.runs))
                           \cup F("HistoryFree", HistoryFree(e.runs, e.fresh))
           IN /\ fails' = fails \cup {[line |-> l, pred |-> b] : b \in bad}
              /\ nontriv' = nontriv + (IF Len(e.runs) >= 2 THEN 1 ELSE 0)
        /\ l' = l + 1
Next == Step
Keep == TLCSet(1, fails) /\ TLCSet(2, nontriv)
Post == /\ TLCGet("stats").diameter - 1 = Len(Trace)
        /\ JsonSerialize(IOEnv.VERIF_OUT, [n |-> Len(Trace), fails |-> TLCGet(1), nontrivial |-> TLCGet(2)])
=============================================================================
