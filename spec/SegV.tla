------------------------------- MODULE SegV -------------------------------
(* Trace validator (monitor) for C06. One event per (string, kind):                        *)
(*   k  in {"l","g","w"} real-code observation, {"cl","cg","cw"} Unicode conformance sample  *)
(*   s  class tuples (facts from the library's tables)                                      *)
(*   b  flags observed on a re-used Segmenter, f on a fresh one, positions 0..n             *)
(*   it iterator segments <<offset, length>>, m (lines) IsMandatoryBreak per segment       *)
(* Every predicate is evaluated on every event; failures are collected in `fails`.         *)
EXTENDS UAX14, UAX29, SegIter, TLC, Json, IOUtils, FiniteSets

VARIABLES l, fails, nontriv
Trace == ndJsonDeserialize(IOEnv.VERIF_TRACE)

Kind(e) == IF e.k \in {"l", "cl"} THEN "l" ELSE IF e.k \in {"g", "cg"} THEN "g" ELSE "w"
IsConf(e) == e.k \in {"cl", "cg", "cw"}

Expected(e) == CASE Kind(e) = "l" -> Breaks(e.s)
                 [] Kind(e) = "g" -> Graphemes(e.s)
                 [] OTHER -> Words(e.s)

Norm(e, x) == IF IsConf(e) /\ x = 2 THEN 1 ELSE x

(* rule conformance: positions where the observation differs from the specification *)
RuleBad(e, exp) ==
  LET n == Len(e.s) IN
  IF Len(e.b) # n + 1 THEN {n + 1}
  ELSE {i \in 0..n : Norm(e, exp[i]) # e.b[i + 1]}

Obs(e) == [i \in 0..Len(e.s) |-> e.b[i + 1]]

HistoryBad(e) == IF IsConf(e) THEN FALSE ELSE e.b # e.f

IterBad(e, exp) ==
  LET n == Len(e.s) IN
  IF IsConf(e) THEN FALSE
  ELSE CASE Kind(e) = "l" ->
              ~ ( /\ IsPartition(e.it, n)
                  /\ EndsAre(e.it, Obs(e), n)
                  /\ n > 0 => /\ Len(e.m) = Len(e.it)
                              /\ \A i \in 1..Len(e.it) : (e.m[i] = 1) <=> (e.b[e.it[i][1] + e.it[i][2] + 1] = 2) )
         [] Kind(e) = "g" -> ~ (IsPartition(e.it, n) /\ EndsAre(e.it, Obs(e), n))
         [] OTHER -> e.it # WordSegs(Obs(e), [i \in 1..n |-> e.s[i].wc], n, 0)

(* non-trivial: some interior boundary decided otherwise than by the default rule,        *)
(* approximated as: the expected flags are not "break everywhere"                          *)
NonTrivial(e, exp) == \E i \in 1..(Len(e.s) - 1) : exp[i] # 1

Init == l = 1 /\ fails = {} /\ nontriv = 0
Step == /\ l <= Len(Trace)
        /\ LET e == Trace[l]
               exp == Expected(e)
               rb == RuleBad(e, exp)
               f1 == IF rb = {} THEN {} ELSE {[line |-> l, pred |-> "Rules", at |-> rb]}
               f2 == IF HistoryBad(e) THEN {[line |-> l, pred |-> "HistoryFree", at |-> {}]} ELSE {}
               f3 == IF IterBad(e, exp) THEN {[line |-> l, pred |-> "Iter", at |-> {}]} ELSE {}
           IN /\ fails' = fails \cup f1 \cup f2 \cup f3
              /\ nontriv' = nontriv + (IF NonTrivial(e, exp) THEN 1 ELSE 0)
        /\ l' = l + 1
Next == Step
Keep == TLCSet(1, fails) /\ TLCSet(2, nontriv)
Post == /\ TLCGet("stats").diameter - 1 = Len(Trace)
        /\ JsonSerialize(IOEnv.VERIF_OUT, [n |-> Len(Trace), fails |-> TLCGet(1), nontrivial |-> TLCGet(2)])
=============================================================================
