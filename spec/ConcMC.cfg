SPECIFICATION Spec
CONSTANTS G = 2
  L = 2
INVARIANT SeqEquiv
CHECK_DEADLOCK FALSE
