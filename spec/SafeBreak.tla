------------------------------- MODULE SafeBreak -------------------------------
(* Glyphs not flagged unsafe-to-break are safe cut points (C18).                               *)
(* Event: the shaping of a whole text (glyphs in buffer order, each [cl, unsafe, sig], sig =     *)
(* glyph id + cluster + advances + offsets), the reading progression, and the shapings of the    *)
(* pieces obtained by cutting at the safe boundaries, each with the neighbouring text supplied   *)
(* as context (frags: [s, e, bot, eot, sigs]).                                                   *)
EXTENDS Integers, Sequences, FiniteSets, SequencesExt

(* glyph flags are uniform within a cluster *)
FlagsUniform(e) == \A i \in 1..(Len(e.whole) - 1) : e.whole[i].cl = e.whole[i + 1].cl => e.whole[i].unsafe = e.whole[i + 1].unsafe

(* text positions of the safe cuts: a cluster boundary whose adjacent glyph - the first glyph, in  *)
(* reading order, of the cluster starting there - is not flagged                                  *)
Cuts(e) ==
  IF e.prog = 0
  THEN {e.whole[i].cl : i \in {j \in 2..Len(e.whole) : e.whole[j].cl # e.whole[j - 1].cl /\ ~e.whole[j].unsafe}}
  ELSE {e.whole[i - 1].cl : i \in {j \in 2..Len(e.whole) : e.whole[j].cl # e.whole[j - 1].cl /\ ~e.whole[j - 1].unsafe}}
Bounds(e) == {0, e.n} \cup Cuts(e)
(* the pieces must be exactly the segments between consecutive bounds, flagged BOT / EOT at the ends *)
FragmentsAreSegments(e) ==
  /\ {e.frags[k].s : k \in DOMAIN e.frags} \cup {e.n} = Bounds(e)
  /\ \A k \in DOMAIN e.frags :
       LET f == e.frags[k] IN
       /\ f.s < f.e /\ f.e \in Bounds(e) /\ ~\E b \in Bounds(e) : f.s < b /\ b < f.e
       /\ f.bot = (f.s = 0) /\ f.eot = (f.e = e.n)
  /\ \A k \in 1..(Len(e.frags) - 1) : e.frags[k].e = e.frags[k + 1].s
(* shaping the pieces independently reproduces, when concatenated, the glyphs and positions of the whole *)
WholeSigs(e) == [i \in DOMAIN e.whole |-> e.whole[i].sig]
PieceSigs(e) ==
  IF e.prog = 0 THEN FoldLeft(LAMBDA acc, f : acc \o f.sigs, << >>, e.frags)
  ELSE FoldLeft(LAMBDA acc, f : f.sigs \o acc, << >>, e.frags)
Concat(e) == PieceSigs(e) = WholeSigs(e)
Monotone(e) == \A i \in 1..(Len(e.whole) - 1) : IF e.prog = 0 THEN e.whole[i].cl <= e.whole[i + 1].cl ELSE e.whole[i].cl >= e.whole[i + 1].cl
=============================================================================
