-------------------------------- MODULE Cmap --------------------------------
(* Agreement of the three windows onto a character map (C11):                                 *)
(*   look  = {(r, g) : face.NominalGlyph(r) = (g, true)}      point lookups, all code points   *)
(*   iter  = the pairs yielded by Cmap.Iter()                  enumeration                      *)
(*   cov / scripts = coverage rune set / script set recorded for font matching                 *)
(* A function rune -> glyph is logged in canonical run-length form: a sequence of segments     *)
(* <<lo, hi, g, d>> meaning r in lo..hi maps to g + d*(r - lo), d in {0, 1}, greedy-maximal,    *)
(* ascending. Rune sets are logged as ascending maximal ranges <<lo, hi>>.                     *)
EXTENDS Integers, Sequences, FiniteSets, SequencesExt

Size(s) == FoldLeft(LAMBDA acc, x : acc + (x[2] - x[1] + 1), 0, s)

Ascending(s) == /\ \A i \in DOMAIN s : s[i][1] <= s[i][2]
                /\ \A i \in 1..(Len(s) - 1) : s[i][2] < s[i + 1][1]

(* The domain of an ascending segment list s, as maximal ranges, equals the ascending range   *)
(* list c. Stated without building the merged list (segment lists of CJK fonts have > 20 000   *)
(* entries): the maximal ranges of s start at the segments not adjacent to their predecessor   *)
(* and end at the segments not adjacent to their successor.                                    *)
Starts(s) == {i \in DOMAIN s : i = 1 \/ s[i][1] # s[i - 1][2] + 1}
Ends(s) == {i \in DOMAIN s : i = Len(s) \/ s[i + 1][1] # s[i][2] + 1}
DomEq(s, c) ==
  /\ Cardinality(Starts(s)) = Len(c)
  /\ {s[i][1] : i \in Starts(s)} = {c[j][1] : j \in DOMAIN c}
  /\ {s[i][2] : i \in Ends(s)} = {c[j][2] : j \in DOMAIN c}
  /\ \A j \in 1..(Len(c) - 1) : c[j][2] + 1 < c[j + 1][1]           \* c itself is maximal

(* enumerating yields exactly the pairs point lookups return, each rune once *)
IterEqLookup(e) == e.iter = e.look /\ e.itercount = Size(e.look)
(* a rune is in the recorded coverage iff the loaded face maps it *)
CoverageExact(e) == DomEq(e.look, e.cov)
(* RuneRanges (when the cmap offers them) describe the same domain *)
RangesExact(e) == e.hasrr => (Ascending(e.rr) /\ Ascending(e.look) /\ {e.rr[i][1] : i \in Starts(e.rr)} = {e.look[i][1] : i \in Starts(e.look)} /\ {e.rr[i][2] : i \in Ends(e.rr)} = {e.look[i][2] : i \in Ends(e.look)})
(* the script set is exactly the set of scripts of the covered runes *)
ScriptsExact(e) == e.scripts = e.lookscripts
(* the coverage does not depend on what the scan processed before: built with the range buffer  *)
(* threaded from the previous cmaps, and built afresh, it is the same                            *)
CoverageHistoryFree(e) == e.cov = e.covf /\ e.scripts = e.scriptsf
=============================================================================
