--------------------------------- MODULE ConcV ---------------------------------
(* Monitor for C17: events Set (a program set starts), Step (goroutine g, step i: digest d when  *)
(* running concurrently, sd when the same program ran alone), Race (a data race report), Hang (the  *)
(* goroutines of a set did not all finish although each program had finished when run alone).       *)
EXTENDS Integers, Sequences, FiniteSets, TLC, Json, IOUtils
VARIABLES l, fails, stats
Trace == ndJsonDeserialize(IOEnv.VERIF_TRACE)
Init == l = 1 /\ fails = {} /\ stats = [sets |-> 0, steps |-> 0, races |-> 0]
Step == /\ l <= Len(Trace)
        /\ LET e == Trace[l] IN
           CASE e.ev = "Set" -> fails' = fails /\ stats' = [stats EXCEPT !.sets = @ + 1]
             [] e.ev = "Step" -> /\ fails' = fails \cup (IF e.d = e.sd /\ e.p = "ok" THEN {} ELSE {[line |-> l, pred |-> IF e.p = "ok" THEN "SeqEquiv" ELSE "Total"]})
                                 /\ stats' = [stats EXCEPT !.steps = @ + 1]
             [] e.ev = "Hang" -> fails' = fails \cup {[line |-> l, pred |-> "Terminates"]} /\ stats' = stats
             [] OTHER -> fails' = fails \cup {[line |-> l, pred |-> "NoRace"]} /\ stats' = [stats EXCEPT !.races = @ + 1]
        /\ l' = l + 1
Next == Step
Keep == TLCSet(1, fails) /\ TLCSet(2, stats)
Post == /\ TLCGet("stats").diameter - 1 = Len(Trace)
        /\ JsonSerialize(IOEnv.VERIF_OUT, [n |-> Len(Trace), fails |-> TLCGet(1), stats |-> TLCGet(2)])
=============================================================================
