--------------------------------- MODULE GlyfV ---------------------------------
(* Monitor for C10 (partial): one event per glyph of a TrueType font:                             *)
(*   glyf (raw bytes of the glyph record, simple glyphs only), segs (the library's outline,        *)
(*   per contour, as cyclic segment lists in doubled coordinates, built by the harness from the     *)
(*   MoveTo/LineTo/QuadTo stream), ext (GlyphExtents x 1), adv, and the hmtx/head facts.            *)
EXTENDS Glyf, SequencesExt, TLC, Json, IOUtils
VARIABLES l, fails, stats
Trace == ndJsonDeserialize(IOEnv.VERIF_TRACE)
Init == l = 1 /\ fails = {} /\ stats = [n |-> 0, outlines |-> 0, nontriv |-> 0, composites |-> 0]
F(name, b) == IF b THEN {} ELSE {name}
ToSeg(s) == IF s[1] = "L" THEN << "L", << s[2], s[3] >>, << s[4], s[5] >> >> ELSE << "Q", << s[2], s[3] >>, << s[4], s[5] >>, << s[6], s[7] >> >>
(* Rasterizer convention followed by the reference shaper: the outline may be translated            *)
(* horizontally so that its xMin coincides with the left side bearing of hmtx. Both placements are     *)
(* accepted. Glyphs with a one-point contour are degenerate and not compared.                          *)
Degenerate(e) == \E c \in 1..NumContours(e.glyf) : Len(Contour(e.glyf, Points(e.glyf), c)) < 2
OutlineAt(e, dx) ==
  LET pts == Shift(Points(e.glyf), dx)
      nc == NumContours(e.glyf)
  IN /\ Len(e.segs) = nc
     /\ \A c \in 1..nc : SameCycle(CyclicSegments(Contour(e.glyf, pts, c)), [j \in DOMAIN e.segs[c] |-> ToSeg(e.segs[c][j])])
OutlineEq(e) == OutlineAt(e, 0) \/ OutlineAt(e, e.lsb - XMin(e.glyf))
(* extents: the header box; the x bearing is xMin or, by the same convention, the left side bearing;  *)
(* an empty glyph has zero extents                                                                     *)
ExtentsEq(e) == LET x == Extents(e.glyf) IN
                IF NumContours(e.glyf) = 0 THEN e.ext = << 0, 0, 0, 0 >>
                ELSE e.ext[2] = x[2] /\ e.ext[3] = x[3] /\ e.ext[4] = x[4] /\ e.ext[1] \in {x[1], e.lsb}
(* ---- composite glyphs made of simple components placed by x/y offsets, without scaling: the outline  *)
(* is the sequence of the components' contours, each translated by its offset. The event carries the    *)
(* raw records of the referenced components (parts); their glyph ids must be the ones the specification *)
(* decodes from the composite record (else the harness fetched the wrong records).                      *)
Flatten(ss) == FoldLeft(LAMBDA acc, x : acc \o x, << >>, ss)
CompJudged(e) == LET cs == Components(e.glyf) IN
                 /\ ~e.simple /\ Len(e.parts) > 0 /\ Len(cs) = Len(e.parts)
                 /\ \A i \in DOMAIN cs : cs[i].xy /\ ~cs[i].scaled /\ NumContours(e.parts[i].glyf) >= 0
                                          /\ \A c \in 1..NumContours(e.parts[i].glyf) : Len(Contour(e.parts[i].glyf, Points(e.parts[i].glyf), c)) >= 1
PartsAgree(e) == LET cs == Components(e.glyf) IN \A i \in DOMAIN cs : cs[i].gid = e.parts[i].gid
CompOutlineAt(e, dx0) ==
  LET cs == Components(e.glyf)
      want == Flatten([i \in DOMAIN cs |-> Contours(e.parts[i].glyf, cs[i].dx + dx0, cs[i].dy)])
  IN /\ Len(e.segs) = Len(want)
     /\ \A c \in DOMAIN want : SameCycle(CyclicSegments(want[c]), [j \in DOMAIN e.segs[c] |-> ToSeg(e.segs[c][j])])
(* horizontal placement: as decoded, or shifted so that xMin meets the left side bearing of the glyph - or *)
(* of the component whose metrics the composite uses (USE_MY_METRICS)                                     *)
CompShifts(e) == LET cs == Components(e.glyf) IN
                 {0, e.lsb - XMin(e.glyf)} \cup {e.parts[i].lsb - XMin(e.parts[i].glyf) : i \in {j \in DOMAIN cs : cs[j].mymetrics}}
CompOutlineEq(e) == \E dx0 \in CompShifts(e) : CompOutlineAt(e, dx0)
CompExtentsEq(e) == LET x == Extents(e.glyf) IN
                    \/ Len(e.segs) = 0
                    \/ (e.ext[2] = x[2] /\ e.ext[3] = x[3] /\ e.ext[4] = x[4] /\ e.ext[1] \in {x[1]} \cup {x[1] + d : d \in CompShifts(e)})
Step == /\ l <= Len(Trace)
        /\ LET e == Trace[l]
               bad == F("Upem", e.upem = U16(e.head, 18)) \cup F("Advance", e.adv = HAdvance(e.gid, e.nhm, e.advgid, e.advlast))
                      \cup (IF e.simple THEN F("Outline", OutlineEq(e)) \cup F("Extents", ExtentsEq(e))
                            ELSE IF CompJudged(e) THEN (IF PartsAgree(e) THEN F("CompositeOutline", CompOutlineEq(e)) \cup F("CompositeExtents", CompExtentsEq(e)) ELSE {"HarnessParts"})
                            ELSE {})
           IN /\ fails' = fails \cup {[line |-> l, pred |-> b] : b \in bad}
              /\ stats' = [stats EXCEPT !.n = @ + 1, !.outlines = @ + (IF e.simple THEN 1 ELSE 0),
                                         !.nontriv = @ + (IF (e.simple \/ CompJudged(e)) /\ Len(e.segs) >= 1 THEN 1 ELSE 0),
                                         !.composites = @ + (IF CompJudged(e) THEN 1 ELSE 0)]
        /\ l' = l + 1
Next == Step
Keep == TLCSet(1, fails) /\ TLCSet(2, stats)
Post == /\ TLCGet("stats").diameter - 1 = Len(Trace)
        /\ JsonSerialize(IOEnv.VERIF_OUT, [n |-> Len(Trace), fails |-> TLCGet(1), stats |-> TLCGet(2)])
=============================================================================
