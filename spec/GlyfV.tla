--------------------------------- MODULE GlyfV ---------------------------------
(* Monitor for C10 (partial): one event per glyph of a TrueType font:                             *)
(*   glyf (raw bytes of the glyph record, simple glyphs only), segs (the library's outline,        *)
(*   per contour, as cyclic segment lists in doubled coordinates, built by the harness from the     *)
(*   MoveTo/LineTo/QuadTo stream), ext (GlyphExtents x 1), adv, and the hmtx/head facts.            *)
EXTENDS Glyf, TLC, Json, IOUtils
VARIABLES l, fails, stats
Trace == ndJsonDeserialize(IOEnv.VERIF_TRACE)
Init == l = 1 /\ fails = {} /\ stats = [n |-> 0, outlines |-> 0, nontriv |-> 0]
F(name, b) == IF b THEN {} ELSE {name}
ToSeg(s) == IF s[1] = "L" THEN << "L", << s[2], s[3] >>, << s[4], s[5] >> >> ELSE << "Q", << s[2], s[3] >>, << s[4], s[5] >>, << s[6], s[7] >> >>
(* Rasterizer convention followed by the reference shaper: the outline may be translated            *)
(* horizontally so that its xMin coincides with the left side bearing of hmtx. Both placements are     *)
(* accepted. Glyphs with a one-point contour are degenerate and not compared.                          *)
Degenerate(e) == \E c \in 1..NumContours(e.glyf) : Len(Contour(e.glyf, Points(e.glyf), c)) < 2
OutlineAt(e, dx) ==
  LET pts == Shift(Points(e.glyf), dx)
      nc == NumContours(e.glyf)
  IN /\ Len(e.segs) = nc
     /\ \A c \in 1..nc : SameCycle(CyclicSegments(Contour(e.glyf, pts, c)), [j \in DOMAIN e.segs[c] |-> ToSeg(e.segs[c][j])])
OutlineEq(e) == OutlineAt(e, 0) \/ OutlineAt(e, e.lsb - XMin(e.glyf))
(* extents: the header box; the x bearing is xMin or, by the same convention, the left side bearing;  *)
(* an empty glyph has zero extents                                                                     *)
ExtentsEq(e) == LET x == Extents(e.glyf) IN
                IF NumContours(e.glyf) = 0 THEN e.ext = << 0, 0, 0, 0 >>
                ELSE e.ext[2] = x[2] /\ e.ext[3] = x[3] /\ e.ext[4] = x[4] /\ e.ext[1] \in {x[1], e.lsb}
Step == /\ l <= Len(Trace)
        /\ LET e == Trace[l]
               bad == F("Upem", e.upem = U16(e.head, 18)) \cup F("Advance", e.adv = HAdvance(e.gid, e.nhm, e.advgid, e.advlast))
                      \cup (IF e.simple THEN F("Outline", OutlineEq(e)) \cup F("Extents", ExtentsEq(e)) ELSE {})
           IN /\ fails' = fails \cup {[line |-> l, pred |-> b] : b \in bad}
              /\ stats' = [stats EXCEPT !.n = @ + 1, !.outlines = @ + (IF e.simple THEN 1 ELSE 0),
                                         !.nontriv = @ + (IF e.simple /\ Len(e.segs) >= 1 THEN 1 ELSE 0)]
        /\ l' = l + 1
Next == Step
Keep == TLCSet(1, fails) /\ TLCSet(2, stats)
Post == /\ TLCGet("stats").diameter - 1 = Len(Trace)
        /\ JsonSerialize(IOEnv.VERIF_OUT, [n |-> Len(Trace), fails |-> TLCGet(1), stats |-> TLCGet(2)])
=============================================================================
