------------------------------- MODULE Itemize -------------------------------
(* Property specification of itemisation (C07): Split cuts an input run by bidi level,       *)
(* script, vertical orientation and face.                                                     *)
(* Input i: [n, start, end, prog, vert, oset (orientation fixed by the caller), side, lang,     *)
(*           size, td (text digest), fd (features digest)]                                      *)
(* Per-rune facts (sequences over positions 1..n, rune k is position k+1):                      *)
(*   parity (0/1, bidi embedding level parity from golang.org/x/text on the same sub-range),     *)
(*   script, strong                                                                              *)
(* Output runs r: [start, end, prog, vert, oset, side, script, lang, face, size, td, fd] and      *)
(*   per-rune facts that depend on the run: orient (sideways under the run's script), maysel,     *)
(*   want (face the font map gives for the rune under the run's script).                          *)
EXTENDS Integers, Sequences, FiniteSets

Degenerate(i) == i.start >= i.end
Runes(r) == r.start..(r.end - 1)

(* consecutive non-empty runs exactly covering the requested range *)
Partition(i, runs) ==
  IF Degenerate(i) THEN Len(runs) = 1 /\ runs[1].start = i.start /\ runs[1].end = i.end
  ELSE /\ Len(runs) >= 1
       /\ runs[1].start = i.start /\ runs[Len(runs)].end = i.end
       /\ \A k \in DOMAIN runs : runs[k].start < runs[k].end
       /\ \A k \in 1..(Len(runs) - 1) : runs[k + 1].start = runs[k].end
(* text, size and features are left untouched; the axis is kept *)
Untouched(i, runs) == \A k \in DOMAIN runs : runs[k].td = i.td /\ runs[k].fd = i.fd /\ runs[k].size = i.size /\ runs[k].vert = i.vert
(* all runes of a run share the embedding-level parity the run's direction reports *)
(* (parity -1 = the reference bidi implementation gives no ordering for this string; then the      *)
(* input direction is kept for the whole range)                                                    *)
BidiUniform(i, f, runs) == Degenerate(i) \/ \A k \in DOMAIN runs : \A x \in Runes(runs[k]) :
                             IF f.parity[x + 1] = -1 THEN runs[k].prog = i.prog ELSE f.parity[x + 1] = runs[k].prog
(* all runes with a specific script share the run's script *)
ScriptUniform(i, f, runs) == Degenerate(i) \/ \A k \in DOMAIN runs : \A x \in Runes(runs[k]) : f.strong[x + 1] => f.script[x + 1] = runs[k].script
(* orientation is uniform: resolved per rune when the caller left it open, copied otherwise *)
OrientUniform(i, runs) ==
  Degenerate(i) \/ ~i.vert \/
  \A k \in DOMAIN runs :
    IF i.oset THEN runs[k].oset /\ runs[k].side = i.side
    ELSE \A x \in DOMAIN runs[k].orient : runs[k].orient[x] = runs[k].side
(* every rune that may select a font resolves to the run's face *)
FaceUniform(i, runs) == Degenerate(i) \/ \A k \in DOMAIN runs :
                          /\ runs[k].face # 0
                          /\ \A x \in DOMAIN runs[k].want : runs[k].maysel[x] => runs[k].want[x] = runs[k].face
(* the language tag is compatible with the script *)
LangCompatible(i, runs) == Degenerate(i) \/ \A k \in DOMAIN runs : runs[k].usescript \/ ~runs[k].hassample \/ ~i.langknown
(* the result does not depend on earlier uses of the same segmenter *)
Core(r) == << r.start, r.end, r.prog, r.vert, r.oset, r.side, r.script, r.lang, r.face >>
HistoryFree(runs, fresh) == Len(runs) = Len(fresh) /\ \A k \in DOMAIN runs : Core(runs[k]) = Core(fresh[k])
=============================================================================
