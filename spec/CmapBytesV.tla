------------------------------ MODULE CmapBytesV ------------------------------
(* Monitor for C10 (character-to-glyph mapping): one event per corpus face:                      *)
(*   w    = the raw `cmap` table as 16-bit words (read through Loader.RawTable)                    *)
(*   look = face.NominalGlyph over all 0x110000 code points, in run-length form                    *)
(* The specification decodes w itself (CmapBytes.tla) and compares.                                *)
EXTENDS CmapBytes, TLC, Json, IOUtils
VARIABLES l, fails, stats
Trace == ndJsonDeserialize(IOEnv.VERIF_TRACE)
Init == l = 1 /\ fails = {} /\ stats = [n |-> 0, judged |-> 0, nontriv |-> 0, symbol |-> 0, nounicode |-> 0, illformed |-> 0, f4 |-> 0, f12 |-> 0, f13 |-> 0, f6 |-> 0]
Step == /\ l <= Len(Trace)
        /\ LET e == Trace[l]
               j == Judged(e.w)
               wf == j /\ WellFormed(e.w)
               mm == IF wf THEN Mismatches(e.w, e.look) ELSE {}
               f == IF j THEN Format(e.w, Rec(e.w, Chosen(e.w)).off) ELSE 0
           IN /\ fails' = fails \cup (IF mm = {} THEN {} ELSE {[line |-> l, pred |-> "CmapDecode", at |-> Min(mm), n |-> Cardinality(mm), format |-> f]})
              /\ stats' = [stats EXCEPT !.n = @ + 1, !.judged = @ + (IF wf THEN 1 ELSE 0),
                                         !.nontriv = @ + (IF wf /\ Len(e.look) >= 2 THEN 1 ELSE 0),
                                         !.symbol = @ + (IF Len(e.w) >= 2 /\ HasSymbol(e.w) THEN 1 ELSE 0),
                                         !.nounicode = @ + (IF ~j /\ ~(Len(e.w) >= 2 /\ HasSymbol(e.w)) THEN 1 ELSE 0),
                                         !.illformed = @ + (IF j /\ ~wf THEN 1 ELSE 0),
                                         !.f4 = @ + (IF wf /\ f = 4 THEN 1 ELSE 0), !.f12 = @ + (IF wf /\ f = 12 THEN 1 ELSE 0),
                                         !.f13 = @ + (IF wf /\ f = 13 THEN 1 ELSE 0), !.f6 = @ + (IF wf /\ f \in {6, 10} THEN 1 ELSE 0)]
        /\ l' = l + 1
Next == Step
Keep == TLCSet(1, fails) /\ TLCSet(2, stats)
Post == /\ TLCGet("stats").diameter - 1 = Len(Trace)
        /\ JsonSerialize(IOEnv.VERIF_OUT, [n |-> Len(Trace), fails |-> TLCGet(1), stats |-> TLCGet(2)])
=============================================================================
