------------------------------ MODULE HBBufferV ------------------------------
(* Monitor for the replay of HBBufferMC behaviours on the real harfbuzz.Buffer: one event per      *)
(* behaviour, holding the state projected after every primitive operation. Judged on the REAL       *)
(* states: Total (no panic), Monotone (C01), FlagsCover (C18; the dependencies are recomputed here  *)
(* from the real state before each flagging call). Drift = the real state differs from the model's  *)
(* transcription of the operation applied to the previous real state (diagnostic: the model no      *)
(* longer describes the code).                                                                     *)
EXTENDS HBBuffer, SequencesExt, TLC, Json, IOUtils
VARIABLES l, fails, stats
Trace == ndJsonDeserialize(IOEnv.VERIF_TRACE)
Init == l = 1 /\ fails = {} /\ stats = [n |-> 0, steps |-> 0, flagged |-> 0]

IsFlag(s) == s.op = "flag" \/ s.op = "flagOut"
(* accumulator: previous real state, dependencies so far, failed predicates, has a delete happened *)
StepAcc(e, acc, s) ==
  IF s.res # "ok" THEN [acc EXCEPT !.bad = @ \cup {"Total"}]
  ELSE LET deps2 == IF IsFlag(s) THEN acc.deps \cup {DepOf(acc.prev, s.op, s.x, s.y)} ELSE acc.deps
           \* behaviours of the raw family reverse the buffer: clusters stay monotone in one of the two directions;
           \* FlagsCover is judged for the two pass families only
           b1 == IF (IF e.dir = "raw" THEN MonotoneAny(s.st) ELSE Monotone(s.st, e.dir)) THEN {} ELSE {"Monotone"}
           b2 == IF e.dir = "raw" \/ FlagsCover(s.st, deps2) THEN {} ELSE {"FlagsCover"}
           b3 == IF Apply(acc.prev, s.op, s.x, s.y) = s.st THEN {} ELSE {"Drift"}
       IN [prev |-> s.st, deps |-> deps2, bad |-> acc.bad \cup b1 \cup b2 \cup b3]
Judge(e) == FoldLeft(LAMBDA acc, s : StepAcc(e, acc, s), [prev |-> e.init, deps |-> {}, bad |-> {}], e.steps).bad

Step == /\ l <= Len(Trace)
        /\ LET e == Trace[l] IN
           /\ fails' = fails \cup {[line |-> l, pred |-> b] : b \in Judge(e)}
           /\ stats' = [stats EXCEPT !.n = @ + 1, !.steps = @ + Len(e.steps),
                                      !.flagged = @ + (IF \E i \in DOMAIN e.steps : IsFlag(e.steps[i]) THEN 1 ELSE 0)]
        /\ l' = l + 1
Next == Step
Keep == TLCSet(1, fails) /\ TLCSet(2, stats)
Post == /\ TLCGet("stats").diameter - 1 = Len(Trace)
        /\ JsonSerialize(IOEnv.VERIF_OUT, [n |-> Len(Trace), fails |-> TLCGet(1), stats |-> TLCGet(2)])
=============================================================================
