------------------------------- MODULE ShapeAPI -------------------------------
(* Call/return laws of shaping (C01). A call is described by                                   *)
(*   n (runes in the text), start, end (requested run bounds), prog (0 FromTopLeft,             *)
(*   1 TowardTopLeft), and its outcome: res ("ok", "panic", "timeout"), the reported rune range  *)
(*   (off, cnt) and the glyphs g, each <<gid, cluster, runeCount, glyphCount, ...>>.             *)
EXTENDS Integers, Sequences, FiniteSets, SequencesExt

Gid(g) == g[1]
Cl(g) == g[2]
Rc(g) == g[3]
Gc(g) == g[4]

Max2(a, b) == IF a >= b THEN a ELSE b
BoundsInside(e) == 0 <= e.start /\ e.start <= e.end /\ e.end <= e.n

Returned(e) == e.res = "ok"
(* the output reports exactly the requested rune range *)
RuneRange(e) == e.off = e.start /\ e.cnt = e.end - e.start
(* every glyph's cluster index lies inside the run *)
InRange(e) == \A i \in DOMAIN e.g : e.start <= Cl(e.g[i]) /\ Cl(e.g[i]) < e.end
(* cluster indices are monotone in the reading direction *)
Monotone(e) == \A i \in 1..(Len(e.g) - 1) :
                 IF e.prog = 0 THEN Cl(e.g[i]) <= Cl(e.g[i + 1]) ELSE Cl(e.g[i]) >= Cl(e.g[i + 1])
(* all glyphs of a cluster carry the same counts, and the glyph count is the size of the group *)
Group(e, c) == {i \in DOMAIN e.g : Cl(e.g[i]) = c}
Clusters(e) == {Cl(e.g[i]) : i \in DOMAIN e.g}
ClusterUniformSmall(e) == \A i \in DOMAIN e.g :
                       /\ Gc(e.g[i]) = Cardinality(Group(e, Cl(e.g[i])))
                       /\ \A j \in Group(e, Cl(e.g[i])) : Rc(e.g[j]) = Rc(e.g[i])
(* the same statement for long outputs (AAT fonts can expand 8 runes into 16 000 glyphs), linear *)
(* in the number of glyphs: the groups of a monotone sequence are contiguous, so it is enough    *)
(* that neighbours in a group agree and that a group starting at i ends exactly Gc glyphs later   *)
GroupStart(e, i) == i = 1 \/ Cl(e.g[i - 1]) # Cl(e.g[i])
ClusterUniformLarge(e) ==
  LET n == Len(e.g) IN
  /\ \A i \in 1..(n - 1) : Cl(e.g[i]) = Cl(e.g[i + 1]) => (Rc(e.g[i]) = Rc(e.g[i + 1]) /\ Gc(e.g[i]) = Gc(e.g[i + 1]))
  /\ \A i \in {j \in 1..n : GroupStart(e, j)} :
        /\ Gc(e.g[i]) >= 1 /\ i + Gc(e.g[i]) - 1 <= n
        /\ Cl(e.g[i + Gc(e.g[i]) - 1]) = Cl(e.g[i])
        /\ (i + Gc(e.g[i]) <= n => Cl(e.g[i + Gc(e.g[i])]) # Cl(e.g[i]))
ClusterUniform(e) == IF Len(e.g) <= 300 THEN ClusterUniformSmall(e) ELSE ClusterUniformLarge(e)
(* whenever a glyph is produced the per-cluster rune counts sum to the run length *)
RECURSIVE SumRc(_, _)
SumRc(e, S) == IF S = {} THEN 0 ELSE LET c == CHOOSE x \in S : TRUE IN Rc(e.g[CHOOSE i \in Group(e, c) : TRUE]) + SumRc(e, S \ {c})
SumStarts(e) == LET idx == [i \in 1..Len(e.g) |-> i] IN
                FoldLeft(LAMBDA acc, i : acc + (IF GroupStart(e, i) THEN Rc(e.g[i]) ELSE 0), 0, idx)
CountsSum(e) == Len(e.g) >= 1 =>
                  (IF Len(e.g) <= 300 THEN SumRc(e, Clusters(e)) ELSE SumStarts(e)) = e.end - e.start
(* output size bounded by a budget proportional to the run length. The engine's own limit is    *)
(* max(64 n, 16384) glyphs, enforced when the buffer grows, which a last batch of insertions can  *)
(* overshoot slightly (seen: 16 406 glyphs for 8 runes with an AAT font); the law only asks for  *)
(* proportionality, so twice that limit is used.                                                 *)
Budget(e) == Len(e.g) <= 2 * Max2(64 * e.n, 16384)

(* engine level (harfbuzz.Buffer.Shape): with monotone cluster levels no rune is lost from the cluster  *)
(* sequence: glyphs removed at the start of the run hand their cluster to their neighbour, so the      *)
(* smallest cluster is the run start (at the shaping API this is what makes CountsSum hold)             *)
StartCovered(e) == Len(e.g) >= 1 => \E i \in DOMAIN e.g : Cl(e.g[i]) = e.start
(* engine level (harfbuzz.Buffer.Shape): positions stay in step with the glyph infos *)
PosSync(e) == e.npos = Len(e.g)
=============================================================================
