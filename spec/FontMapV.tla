------------------------------ MODULE FontMapV ------------------------------
(* Trace validator for C14. Unset aspect fields of an added face mean the CSS defaults.       *)
(* Events (field ev): New, AddFace, SetQuery, SetScript, SetCache,   *)
(* Resolve (r, got = 1-based index of the returned face in insertion order, 0 = nil,          *)
(* -1 = panic; fresh = the same on a freshly built map with the same fonts/query/script;      *)
(* crible, gen = facts from the library's substitution tables (expanded family lists of the    *)
(* query and of its generic keywords, restricted to the families of the map); FontMap.tla       *)
(* specifies how the priority uses them.                                                        *)
EXTENDS FontMap, TLC, Json, IOUtils
VARIABLES l, db, query, script, memo, fails, stats
Trace == ndJsonDeserialize(IOEnv.VERIF_TRACE)
NoQuery == [fams |-> << >>, asp |-> [st |-> 0, sy |-> 0, w |-> 0]]
Init == l = 1 /\ db = << >> /\ query = NoQuery /\ script = "none" /\ memo = {} /\ fails = {}
        /\ stats = [hist |-> 0, resolves |-> 0, nontriv |-> 0, changed |-> FALSE, seen |-> {}]

Ev(name) == l <= Len(Trace) /\ Trace[l].ev = name
SeqToSet(s) == {s[i] : i \in DOMAIN s}

New == /\ Ev("New") /\ db' = << >> /\ query' = NoQuery /\ script' = "none" /\ memo' = {}
       /\ stats' = [stats EXCEPT !.hist = @ + 1, !.changed = FALSE, !.seen = {}] /\ UNCHANGED fails /\ l' = l + 1
AddFace == /\ Ev("AddFace")
           /\ LET e == Trace[l] IN
              db' = Append(db, [fam |-> e.fam, asp |-> Desired(e.asp), runes |-> SeqToSet(e.runes), scripts |-> SeqToSet(e.scripts), ttf |-> e.ttf, mono |-> e.mono])
           /\ stats' = [stats EXCEPT !.changed = TRUE]
           /\ UNCHANGED <<query, script, memo, fails>> /\ l' = l + 1
SetQuery == /\ Ev("SetQuery") /\ query' = [fams |-> Trace[l].fams, asp |-> Trace[l].asp]
            /\ stats' = [stats EXCEPT !.changed = TRUE]
            /\ UNCHANGED <<db, script, memo, fails>> /\ l' = l + 1
SetScript == /\ Ev("SetScript") /\ script' = Trace[l].s
             /\ stats' = [stats EXCEPT !.changed = TRUE]
             /\ UNCHANGED <<db, query, memo, fails>> /\ l' = l + 1
SetCache == /\ Ev("SetCache") /\ UNCHANGED <<db, query, script, memo, fails, stats>> /\ l' = l + 1

Resolve ==
  /\ Ev("Resolve")
  /\ LET e == Trace[l]
         key == <<Len(db), query, script, e.r>>
         cr == {<< e.crible[i][1], e.crible[i][2], e.crible[i][3] >> : i \in DOMAIN e.crible}
         gen == {<< e.gen[i][1], {<< e.gen[i][2][k][1], e.gen[i][2][k][2], e.gen[i][2][k][3] >> : k \in DOMAIN e.gen[i][2]} >> : i \in DOMAIN e.gen}
         allowed == IF Len(db) = 0 THEN {0} ELSE AllowedC(db, query, script, cr, gen, e.r)
         bad == (IF e.got = -1 THEN {"Total"} ELSE {})
                \cup (IF Len(db) > 0 /\ e.got = 0 THEN {"NonNil"} ELSE {})
                \cup (IF e.got >= 0 /\ e.got \notin allowed THEN {"Priority"} ELSE {})
                \cup (IF \E m \in memo : m[1] = key /\ m[2] # e.got THEN {"Functional"} ELSE {})
                \cup (IF e.fresh # e.got THEN {"FreshEq"} ELSE {})
     IN /\ fails' = fails \cup {[line |-> l, pred |-> b] : b \in bad}
        /\ memo' = memo \cup {<<key, e.got>>}
        /\ stats' = [stats EXCEPT !.resolves = @ + 1,
                                   !.nontriv = @ + (IF stats.changed /\ e.r \in stats.seen THEN 1 ELSE 0),
                                   !.changed = FALSE, !.seen = @ \cup {e.r}]
  /\ UNCHANGED <<db, query, script>> /\ l' = l + 1

Next == New \/ AddFace \/ SetQuery \/ SetScript \/ SetCache \/ Resolve
Keep == TLCSet(1, fails) /\ TLCSet(2, [hist |-> stats.hist, resolves |-> stats.resolves, nontriv |-> stats.nontriv])
Post == /\ TLCGet("stats").diameter - 1 = Len(Trace)
        /\ JsonSerialize(IOEnv.VERIF_OUT, [n |-> Len(Trace), fails |-> TLCGet(1), stats |-> TLCGet(2)])
=============================================================================
