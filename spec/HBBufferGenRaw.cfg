SPECIFICATION Spec
CONSTANTS
  N = 4
  Dir = "raw"
  MaxPasses = 2
  MaxFlags = 3
  Ops = {"lig", "mult", "del", "raw"}
VIEW View
CHECK_DEADLOCK FALSE
INVARIANT Emit
