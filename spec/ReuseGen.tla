------------------------------ MODULE ReuseGen ------------------------------
(* Flow G for C13: every history up to length D over the operation alphabet of one object kind. *)
(* Kinds: shaper (HarfbuzzShaper + faces of a variable, a static and an alternates-rich font, feature values), face (variation /     *)
(* ppem changes and glyph queries), wrap (LineWrapper), split (shaping.Segmenter), seg            *)
(* (segmenter.Segmenter). The meaning of the symbolic arguments is fixed in the Go driver.        *)
EXTENDS Integers, Sequences, TLC, Json
CONSTANTS D, Kind
VARIABLE hist
Ops ==
  CASE Kind = "shaper" ->
         { [op |-> "Shape", face |-> f, text |-> t, feat |-> 0] : f \in {"V1", "V2", "S1"}, t \in {1, 2} }
         \cup { [op |-> "Shape", face |-> "A1", text |-> 3, feat |-> x] : x \in {0, 1, 2} }
         \cup { [op |-> "Shape", face |-> "S1", text |-> 2, feat |-> x] : x \in {3, 4, 5} }   \* one feature each: kern off, kern on, liga off
         \cup { [op |-> "SetFontCacheSize", k |-> k] : k \in {0, 1} }
         \cup { [op |-> "SetVariations", face |-> "V1", w |-> w] : w \in {400, 900} }
    [] Kind = "face" ->
         { [op |-> "SetVariations", w |-> w] : w \in {0, 400, 900} } \cup { [op |-> "SetPpem", k |-> k] : k \in {0, 20} }
         \cup { [op |-> "Extents", g |-> g] : g \in {5, 40} } \cup { [op |-> "Advance", g |-> g] : g \in {5, 40} }
    [] Kind = "wrap" ->
         { [op |-> "WrapParagraph", para |-> p, w |-> w] : p \in {1, 2, 3}, w \in {3, 5} }
         \cup { [op |-> "Prepare", para |-> p] : p \in {1, 2, 3} } \cup { [op |-> "WrapNextLine", w |-> w] : w \in {2, 4} }
    [] Kind = "split" -> { [op |-> "Split", text |-> t] : t \in {1, 2, 3, 4} }
    [] OTHER -> { [op |-> "Init", text |-> t] : t \in {1, 2, 3, 4} }
Init == hist = << >>
Next == Len(hist) < D /\ \E o \in Ops : hist' = Append(hist, o)
Spec == Init /\ [][Next]_hist
Emit == Len(hist) >= 2 => PrintT("H|" \o ToJson(hist))
=============================================================================
