SPECIFICATION Spec
CONSTANT T = 4
INVARIANT Emit
CHECK_DEADLOCK FALSE
