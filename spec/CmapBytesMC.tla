---------------------------- MODULE CmapBytesMC ----------------------------
(* Flow M for the decoder itself: the recursive binary search that CmapBytes.tla uses to find the  *)
(* segment of a code point is the linear definition of the OpenType specification ("the first       *)
(* segment whose end code is greater than or equal to the character code"), for every ascending     *)
(* list of at most N segments over the codes 0..9, and LookAt on the run-length form is the          *)
(* function it denotes. TLC enumerates the lists as states.                                          *)
EXTENDS CmapBytes, TLC
CONSTANT N
VARIABLES segs
Codes == 0..9
Init == segs = << >>
Next == /\ Len(segs) < N
        /\ \E a \in Codes, b \in Codes, g \in 1..2, d \in 0..1 :
             /\ a <= b
             /\ (Len(segs) > 0 => segs[Len(segs)][2] < a)
             /\ segs' = Append(segs, <<a, b, g, d>>)
Linear(s, r) == IF \E i \in DOMAIN s : s[i][2] >= r THEN CHOOSE i \in DOMAIN s : s[i][2] >= r /\ \A j \in DOMAIN s : s[j][2] >= r => i <= j
                ELSE Len(s) + 1
SearchIsLinear == \A r \in -1..10 : BSearch(segs, r, 1, Len(segs)) = Linear(segs, r)
Denotes == \A r \in Codes : LookAt(segs, r) = (IF \E i \in DOMAIN segs : segs[i][1] <= r /\ r <= segs[i][2]
                                                THEN LET i == CHOOSE i \in DOMAIN segs : segs[i][1] <= r /\ r <= segs[i][2] IN segs[i][3] + segs[i][4] * (r - segs[i][1])
                                                ELSE 0)
=============================================================================
