SPECIFICATION Spec
CONSTANTS MaxG = 5
  MaxN = 5
INVARIANT Laws
CHECK_DEADLOCK FALSE
