--------------------------------- MODULE Glyf ---------------------------------
(* An independent decoder of TrueType simple glyphs, written from the OpenType specification      *)
(* ('glyf' table), for C10 (partial): byte string -> points -> closed quadratic contours.           *)
(* All coordinates are doubled so that implied mid-points stay integral.                             *)
(* A contour is compared up to rotation: where a decoder starts the path is a convention.           *)
EXTENDS Integers, Sequences, FiniteSets

U8(b, p) == b[p + 1]                                    \* p = 0-based offset
U16(b, p) == b[p + 1] * 256 + b[p + 2]
I16(b, p) == LET u == U16(b, p) IN IF u >= 32768 THEN u - 65536 ELSE u

(* ---- header: numberOfContours, xMin, yMin, xMax, yMax (10 bytes), then endPtsOfContours ---- *)
NumContours(b) == I16(b, 0)
EndPts(b) == [i \in 1..NumContours(b) |-> U16(b, 10 + 2 * (i - 1))]
NumPoints(b) == IF NumContours(b) = 0 THEN 0 ELSE EndPts(b)[NumContours(b)] + 1
InstrLenPos(b) == 10 + 2 * NumContours(b)
FlagsPos(b) == InstrLenPos(b) + 2 + U16(b, InstrLenPos(b))

(* flags with their repeat counts: returns << flags sequence, next byte position >> *)
RECURSIVE ReadFlags(_, _, _, _)
ReadFlags(b, p, n, acc) ==
  IF Len(acc) >= n THEN << SubSeq(acc, 1, n), p >>
  ELSE LET f == U8(b, p) IN
       IF (f \div 8) % 2 = 1                            \* REPEAT_FLAG
       THEN LET r == U8(b, p + 1) IN ReadFlags(b, p + 2, n, acc \o [k \in 1..(r + 1) |-> f])
       ELSE ReadFlags(b, p + 1, n, Append(acc, f))

Bit(f, k) == (f \div k) % 2 = 1
(* coordinates: short vector bit s, same-or-positive bit q *)
RECURSIVE ReadCoords(_, _, _, _, _, _, _)
ReadCoords(b, p, flags, i, s, q, acc) ==
  IF i > Len(flags) THEN << acc, p >>
  ELSE LET f == flags[i]
           prev == IF Len(acc) = 0 THEN 0 ELSE acc[Len(acc)]
       IN IF Bit(f, s)
          THEN LET d == U8(b, p) IN ReadCoords(b, p + 1, flags, i + 1, s, q, Append(acc, prev + (IF Bit(f, q) THEN d ELSE 0 - d)))
          ELSE IF Bit(f, q) THEN ReadCoords(b, p, flags, i + 1, s, q, Append(acc, prev))
          ELSE ReadCoords(b, p + 2, flags, i + 1, s, q, Append(acc, prev + I16(b, p)))

(* decoded points of a simple glyph: sequence of [x, y, on] (not doubled) *)
Points(b) ==
  LET n == NumPoints(b)
      fl == ReadFlags(b, FlagsPos(b), n, << >>)
      xs == ReadCoords(b, fl[2], fl[1], 1, 2, 16, << >>)
      ys == ReadCoords(b, xs[2], fl[1], 1, 4, 32, << >>)
  IN [i \in 1..n |-> [x |-> xs[1][i], y |-> ys[1][i], on |-> Bit(fl[1][i], 1)]]

Contour(b, pts, c) == LET s == IF c = 1 THEN 1 ELSE EndPts(b)[c - 1] + 2 IN SubSeq(pts, s, EndPts(b)[c] + 1)

(* ---- a closed contour as a cyclic sequence of segments (doubled coordinates) ---- *)
D(p) == << 2 * p.x, 2 * p.y >>
Mid(p, q) == << p.x + q.x, p.y + q.y >>
(* the on-curve "knots" of the cyclic point list: real on-curve points and implied mid-points,   *)
(* interleaved with the off-curve controls: element = [k |-> "on"|"off", p |-> doubled point]      *)
Nxt(ct, i) == IF i = Len(ct) THEN 1 ELSE i + 1
RECURSIVE Expand(_, _)
Expand(ct, i) ==
  IF i > Len(ct) THEN << >>
  ELSE LET p == ct[i] q == ct[Nxt(ct, i)]
           me == << [k |-> IF p.on THEN "on" ELSE "off", p |-> D(p)] >>
           im == IF ~p.on /\ ~q.on THEN << [k |-> "on", p |-> Mid(p, q)] >> ELSE << >>
       IN me \o im \o Expand(ct, i + 1)
(* segments starting at each on knot of the expanded cyclic list: line <<"L", a, b>> or quad <<"Q", a, c, b>> *)
CyclicSegments(ct) ==
  LET e == Expand(ct, 1)
      n == Len(e)
      at(i) == e[((i - 1) % n) + 1]
      ons == SelectSeq([i \in 1..n |-> i], LAMBDA i : e[i].k = "on")
  IN [j \in 1..Len(ons) |->
        LET i == ons[j] IN
        IF at(i + 1).k = "on" THEN << "L", e[i].p, at(i + 1).p >>
        ELSE << "Q", e[i].p, at(i + 1).p, at(i + 2).p >>]

Rotate(s, k) == [i \in 1..Len(s) |-> s[((i - 1 + k) % Len(s)) + 1]]
SameCycle(a, b) == Len(a) = Len(b) /\ (Len(a) = 0 \/ \E k \in 0..(Len(a) - 1) : Rotate(a, k) = b)

(* ---- extents: the bounding box stored in the glyph header (it bounds the curve, not its control   *)
(* points): xBearing, yBearing, width, height ---- *)
XMin(b) == I16(b, 2)
YMin(b) == I16(b, 4)
XMax(b) == I16(b, 6)
YMax(b) == I16(b, 8)
Extents(b) == << XMin(b), YMax(b), XMax(b) - XMin(b), YMin(b) - YMax(b) >>
Shift(pts, dx) == [i \in DOMAIN pts |-> [pts[i] EXCEPT !.x = @ + dx]]

ShiftXY(pts, dx, dy) == [i \in DOMAIN pts |-> [pts[i] EXCEPT !.x = @ + dx, !.y = @ + dy]]

(* ---- composite glyphs (numberOfContours < 0): component records after the 10-byte header ----      *)
(* flags: 0x1 ARG_1_AND_2_ARE_WORDS, 0x2 ARGS_ARE_XY_VALUES, 0x8 WE_HAVE_A_SCALE, 0x20 MORE_COMPONENTS,  *)
(* 0x40 WE_HAVE_AN_X_AND_Y_SCALE, 0x80 WE_HAVE_A_TWO_BY_TWO, 0x200 USE_MY_METRICS                        *)
I8(b, p) == LET u == U8(b, p) IN IF u >= 128 THEN u - 256 ELSE u
RECURSIVE ReadComponents(_, _, _)
ReadComponents(b, p, acc) ==
  IF p + 4 > Len(b) \/ Len(acc) >= 64 THEN acc
  ELSE LET fl == U16(b, p)
           words == Bit(fl, 1)
           a1 == IF words THEN I16(b, p + 4) ELSE I8(b, p + 4)
           a2 == IF words THEN I16(b, p + 6) ELSE I8(b, p + 5)
           afterArgs == p + 4 + (IF words THEN 4 ELSE 2)
           scaleBytes == IF Bit(fl, 8) THEN 2 ELSE IF Bit(fl, 64) THEN 4 ELSE IF Bit(fl, 128) THEN 8 ELSE 0
           c == [gid |-> U16(b, p + 2), dx |-> a1, dy |-> a2, xy |-> Bit(fl, 2),
                 scaled |-> Bit(fl, 8) \/ Bit(fl, 64) \/ Bit(fl, 128), mymetrics |-> Bit(fl, 512)]
       IN IF Bit(fl, 32) THEN ReadComponents(b, afterArgs + scaleBytes, Append(acc, c)) ELSE Append(acc, c)
Components(b) == ReadComponents(b, 10, << >>)
(* all contours of a simple glyph record *)
Contours(b, dx, dy) == LET pts == ShiftXY(Points(b), dx, dy) IN [c \in 1..NumContours(b) |-> Contour(b, pts, c)]

(* ---- horizontal advance: the numberOfHMetrics tail rule ---- *)
HAdvance(gid, nhm, advAtGid, advLast) == IF gid < nhm THEN advAtGid ELSE advLast
=============================================================================
