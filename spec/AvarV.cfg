INIT Init
NEXT Next
CHECK_DEADLOCK FALSE
CONSTRAINT Keep
POSTCONDITION Post
