INIT Init
NEXT Next
CONSTANT N = 3
INVARIANT SearchIsLinear
INVARIANT Denotes
CHECK_DEADLOCK FALSE
