#!/usr/bin/env python3
"""Regenerates MANIFEST.json from the table below (single source of truth for claimed checks)."""
import json, os, subprocess
V = os.path.dirname(os.path.dirname(os.path.abspath(__file__)))

CHECKS = {
 "C06": dict(
   technique="TLA+ property spec (UAX14/UAX29/SegIter) + TLC trace validation of exhaustive small-scope and random observations of the real segmenter",
   category="model_checking", design_ref="DESIGN.md §5 C06",
   text="Declarative TLA+ formalisation of UAX #14 (LB25 tailored) and UAX #29 rules, self-validated on every run against the Unicode 14 conformance files; "
        "TLC evaluates it on every class-tuple sequence up to a bound (exhaustive) and on random long strings observed from the real Segmenter (re-used and fresh object, raw flags and iterators). "
        "Exhaustive in small scopes is the right level: the implementation is a finite look-behind automaton, so defects show at short lengths.",
   note="Trusts: the library's class lookup tables as facts (C20 checks their coherence), TLC, the Json community module. Bounded lengths; long strings sampled."),
}

_WRAP_NOTE = ("Trusts: break opportunities from the real segmenter (C06), TLC, the Json module. Synthetic runs obey the shaper contract "
              "(cluster boundaries are grapheme boundaries; a malformed class is out of scope). Vertical runs and negative letter spacing are not generated; "
              "letter spacing on right-to-left runs is judged for conservation (C02) only. Bounded paragraph length; exhaustive within the bound in the thorough tier.")
for _pid, _what in (("C02", "conservation (Contig, Piece, Sum, Cover, NonEmpty, termination/no panic)"),
                    ("C03", "legal line ends (LegalEnd, NoIntraCluster, Mandatory, SplitOnlyWhenNecessary)"),
                    ("C04", "width/greedy/truncation (Fits, Greedy, TruncGreedy, TruncCount, Truncator)"),
                    ("C08", "visual order (VisPerm, VisL2 = rule L2 of UAX #9 in Bidi.tla, TrimTarget, TrimApplied)")):
    CHECKS[_pid] = dict(
        engine="wrap",
        technique="TLA+ property spec (Wrap.tla, Bidi.tla) as a state-machine monitor (WrapV.tla: Prepare/Line actions, pos/k/done state); TLC validates traces of the real LineWrapper over an exhaustive small-scope enumeration of shaped paragraphs x configurations x widths",
        category="model_checking", design_ref="DESIGN.md §5 C02-C04, C08",
        text="Acceptance predicates for " + _what + " written in TLA+ over one wrapped line given the paragraph scenario; every WrapNextLine/WrapParagraph result of the real wrapper "
             "on every synthetic paragraph up to a length bound (all cluster partitions, run splits, directions, policies, truncation settings, all widths) is a trace event that TLC steps through, evaluating every predicate at every step. "
             "Small-scope exhaustiveness fits: the wrapper's carried-over state spans at most a few candidates, and all defects found (4, fixed) showed at <= 3 runes.",
        note=_WRAP_NOTE)
CHECKS["C04"]["technique"] += "; plus WrapImpl.tla, a PlusCal implementation model of LineWrapper model-checked against the same predicates as invariants (all scenarios <= 3/4 runes), with repair switches that must reproduce the two historical counterexamples"

CHECKS["C15"] = dict(
    engine="css",
    technique="TLA+ transcription of CSS Fonts §5.2 (CSSMatch.tla), model-checked for its own promises, and TLC trace validation of the real retainsBestMatches over an exhaustive grid of candidate lists x requests",
    category="model_checking", design_ref="DESIGN.md §5 C15",
    text="CSSMatch!Narrow is the standard's narrowing written declaratively; TLC first proves over a grid (3.4M states) that it always yields a non-empty uniform subset and that exact matches win, "
         "then evaluates it against the indices retained by the real code for every multiset of <= K candidates over the grid and every request, plus random larger lists. A pure function over a small value domain: exhaustive grids are the right level.",
    note="Each candidate list is narrowed twice: as a font set of its own and as a scattered, permuted subset of a larger font set (second verif export). Trusts TLC and the verif export VerifRetainBest (a 6-line wrapper around fontSet.retainsBestMatches). Values outside the grids are sampled only.")

CHECKS["C14"] = dict(
    engine="fm",
    technique="TLA+ property spec of the documented resolution order (FontMap.tla, re-using CSSMatch), implementation model with lazy candidates + LRU model-checked against it (FontMapImpl.tla), TLC-generated exhaustive operation histories replayed on the real FontMap and validated by the FontMapV monitor",
    category="model_checking", design_ref="DESIGN.md §5 C14",
    text="FontMap!Allowed(db, query, script, rune) is the set of faces the documented priority permits; TLC (a) proves that the cache/flag design refines it for all histories up to a bound, "
         "(b) enumerates every history up to length D over a small operation alphabet, which the harness executes on the real FontMap with synthetic fonts, and (c) validates these and random 25-step histories event by event: NonNil, Priority, Functional (memo across the trace), FreshEq (same answer as a map rebuilt from scratch).",
    note="Family substitution: the expanded family list of each query (a port of fontconfig tables) is a fact read through a verif export; FontMap.tla specifies how it orders the candidates (strong/weak, script-first, score, mono, TrueType, insertion) and Priority is judged on substituted and generic queries too; substitution histories come from FontMapGenSubs.tla. Trusts TLC, synthetic fonts written by WriteTTF (cmap 12 + head + maxp), intended coverage as fact. Substitution tables and system-font index are outside this check. Bounded history length / alphabet.")

CHECKS["C19"] = dict(
    engine="sfnt",
    technique="TLA+ specification of the sfnt container layout (Sfnt.tla: header search fields, directory, zero-padded checksums in 16-bit halves, offsets/lengths, an independent directory decode) evaluated by TLC on the bytes written by the real WriteTTF and on what the real Loader reads back",
    category="model_checking", design_ref="DESIGN.md §5 C19",
    text="Every predicate of Sfnt.tla (Header, DirectoryOrder, Checksums, Lengths, Offsets, ReadBack by a decoder written in TLA+, LoaderTags/LoaderReadBack through the real reader, InputsUntouched incl. spare capacity) is evaluated by TLC on every length vector of <= K tables with lengths 0..9 (all residues mod 4) and on random lists of up to 40 tables. "
         "A pure function of a list of byte strings whose case analysis is in the length residues: exhaustive over residues is the right level.",
    note="Each table list is written twice from the same []Table value with the contents reversed in place in between. Trusts TLC and the harness's byte logging. Table contents are sampled by seed (the layout does not depend on them, the checksum does linearly). Files larger than a few KB are not generated.")

CHECKS["C11"] = dict(
    engine="cmap",
    technique="TLA+ agreement spec over the three windows of a character map (Cmap.tla) and a set-semantics state machine for RuneSet (RuneSet.tla, histories generated by TLC), validated by TLC on observations of corpus fonts (all code points) and synthetic subtables",
    category="model_checking", design_ref="DESIGN.md §5 C11",
    text="IterEqLookup, CoverageExact, RangesExact, ScriptsExact are TLA+ predicates over run-length descriptions of (a) NominalGlyph over all 0x110000 code points, (b) Iter, (c) RuneRanges, (d) the coverage/script sets fontscan records; evaluated for corpus faces and ~650 synthetic subtables with boundary structure. "
         "RuneSet: TLC enumerates every Add/Delete history up to length D over boundary runes; the harness replays it and RuneSetV steps the mathematical set alongside, checking Contains/Len/serialization round trip/includes after every operation.",
    note="Trusts the harness's run-length compression (funcSegments/setRanges), language.LookupScript as fact (C20), TLC. Quick tier samples 120 corpus files by seed; thorough takes all 738.")

CHECKS["C20"] = dict(
    engine="ucd",
    technique="TLA+ law modules (Direction.tla as an action system model-checked with action properties; Tables.tla with the bisection-equals-linear-scan law model-checked; LangTag.tla) evaluated by TLC on a complete dump of the library's tables and of its lookup results over all code points",
    category="model_checking", design_ref="DESIGN.md §5 C20",
    text="The laws (each setter changes only its component; tables sorted and pairwise disjoint = exactly one value; the looked-up value changes exactly where the tables change = agreement with a linear scan; mirroring involution; "
         "Decompose/Compose mutual inverses outside the exclusions; tag canonicalisation idempotent and equal to its specification; identifiers round-trip; primary fallback) are TLA+ predicates. "
         "The input is finite and complete (all 0x110000 code points, all table entries, all 256 direction values), so one pass is exhaustive.",
    note="Trusts the harness's flattening of unicode.RangeTable and run-length compression, x/text norm for the exclusion facts, TLC.")

CHECKS["C13"] = dict(
    engine="reuse",
    technique="TLA+ property spec of result validity epochs (Reuse.tla: SameAsFresh, Stable, documented invalidation points), operation histories enumerated exhaustively by TLC (ReuseGen.tla) per object kind, replayed on one re-used real object and on fresh ones, validated by the ReuseV monitor",
    category="model_checking", design_ref="DESIGN.md §5 C13",
    text="For five kinds of reusable object (HarfbuzzShaper with faces sharing a font, Face, LineWrapper, shaping.Segmenter, segmenter.Segmenter) TLC enumerates every operation history up to length D; "
         "the harness executes it on one object, each step also on freshly built objects, and re-digests every earlier result after every step; the monitor tracks the validity epoch of each result and evaluates SameAsFresh and Stable at every event.",
    note="Trusts sha1 digests of result fields as the observation, the harness's construction of the 'fresh' configuration, TLC. Small alphabets (3 faces, 2-4 texts, 3 paragraphs); history length bounded.")

CHECKS["C16"] = dict(
    engine="fidx",
    technique="TLA+ model of file system + incremental scan + non-atomic cache write (FontIndex.tla) model-checked for RefreshEqScratch and its inductive support; its behaviours (histories) are printed by TLC, executed on the real scanner in a temp directory, and validated step by step by the FontIndexV monitor, together with an exhaustive truncation / corruption sweep of the serialized index",
    category="model_checking", design_ref="DESIGN.md §5 C16",
    text="TLC explores every history of file operations, refreshes, saves, crashes and loads up to length D over 2 paths x 3 contents and checks the mtime-keyed reuse rule against 'refresh = scan from scratch' (with the monotone-clock assumption explicit). "
         "Each history ending in a refresh is replayed with real font files; the monitor re-steps the file-system model and checks ScratchExact, RefreshEqScratch, RoundTrip, TornSafe/TornWellFormed at Load, and for every prefix and sampled byte flips of a serialized index: no panic, prefix decodes to error or the same index, and a scan after any successful read equals the scratch scan.",
    note="Histories writing a.ttf are also executed through a symbolic link to a file outside the scanned tree; one content is a 3-face collection. Trusts os.Chtimes as the clock, sha1 digests of serialized footprints, TLC. Symlinks/permissions and concurrent writers are not modelled. Byte flips are sampled in the quick tier (every third byte), all bytes in thorough.")

CHECKS["C01"] = dict(
    engine="shape",
    technique="TLA+ call/return laws (ShapeAPI.tla) validated by TLC on recorded Shape calls over corpus fonts x inputs (shaping API and engine API), plus a TLA+ transcription of countClusters model-checked against the same laws, plus HBBuffer.tla (implementation model of harfbuzz.Buffer's in/out protocol): Monotone model-checked over all passes of a 4-glyph buffer and judged on the real buffer when TLC-generated passes are replayed on it",
    category="model_checking", design_ref="DESIGN.md §5 C01",
    text="Every recorded call (under recover and a watchdog) is an event; TLC evaluates Returned, Range, InRange, Monotone, ClusterUniform, CountsSum, Budget (and PosSync / Monotone per cluster level at the engine API). "
         "Inputs: sampled corpus faces (all in thorough) x multi-script and own-cmap texts x 7 directions x scripts x sizes x run bounds incl. degenerate ones. The cluster-count algorithm is additionally model-checked exhaustively for <= 5 glyphs over <= 5 runes.",
    note="Trusts recover()/watchdog as the totality observation, TLC. Font x text space is sampled (seeded), not exhausted; the buffer model covers the substitution-pass primitives (next/skip/replace/delete/merge/flag/swap), not the shapers that drive them.")
CHECKS["C12"] = dict(
    engine="shape",
    technique="TLA+ geometric identities (Geometry.tla: advance sums, cross-axis zero, enclosing and tight bounds, line bounds = font extents, sideways = 90 degree rotation of the horizontal twin, word/letter spacing deltas) validated by TLC on recorded real shapings and on synthetic spacing scenarios",
    category="model_checking", design_ref="DESIGN.md §5 C12",
    text="For every recorded Output TLC evaluates AdvSum, CrossZero, BoundsEnclose/BoundsTight, LineBounds and, for sideways runs, Rotation against the horizontal shaping of the same input (stated as the map (x,y)->(y,-x) on advance vector and ink box). "
         "Spacing: every cluster partition of 6 short texts x 1-2 glyphs per cluster x both progressions and axes x 6 spacing values x start/end flags through the real AddWordSpacing/AddLetterSpacing, compared with the eligibility rules written in TLA+.",
    note="Trusts TLC and the harness's logging of glyph fields. Integer 26.6 arithmetic only. Fonts x texts sampled by seed.")

CHECKS["C07"] = dict(
    engine="itemize",
    technique="TLA+ property spec of itemisation (Itemize.tla: Partition, Untouched, BidiUniform, ScriptUniform, OrientUniform, FaceUniform, LangCompatible, HistoryFree) validated by TLC on recorded Split calls (exhaustive short strings over a class alphabet plus random longer ones) on a re-used and a fresh Segmenter",
    category="model_checking", design_ref="DESIGN.md §5 C07",
    text="Each Split call is one event carrying the input, the output runs and per-rune facts (bidi parity from x/text, script, orientation under the run's script, font-map answer under the run's script); TLC evaluates all eight predicates. "
         "Exhaustive over strings up to length L of a 12-class alphabet; the re-used Segmenter accumulates the whole shard as history, so HistoryFree compares against a fresh one at every call.",
    note="Trusts x/text bidi as the level fact, the library's exported lookups for script/orientation, TLC. Bracket pairing is not judged separately. Long strings sampled by seed.")

CHECKS["C18"] = dict(
    engine="utb",
    technique="TLA+ cut-at-safe-boundaries protocol (SafeBreak.tla: the cut set is recomputed by the spec from the flagged whole, the recorded pieces must be exactly its segments, Concat and FlagsUniform) validated by TLC on whole/piece shapings of corpus fonts in every direction; plus HBBuffer.tla, an implementation model of harfbuzz.Buffer's in/out protocol: the FlagsCover law model-checked over all passes of a 4-glyph buffer, TLC-generated passes replayed on the real buffer and judged by the HBBufferV monitor",
    category="model_checking", design_ref="DESIGN.md §5 C18",
    text="For every case the harness records the whole shaping with per-glyph cluster, unsafe flag and a position signature, and the shapings of the pieces; TLC recomputes the safe cut set, checks that the pieces are exactly the segments (so the harness cannot cut elsewhere), that flags are uniform per cluster and that the concatenated pieces reproduce the whole. "
         "All 583 OpenType-layout faces of the corpus x texts from their own coverage, script samples and texts derived from the face's own contextual rules (including rules without nested lookup) x LTR/RTL/TTB/BTT x language systems x optional features. "
         "Buffer level: TLC checks FlagsCover and Monotone on every state of HBBufferMC (6.9e5 states, logical order), must find the two documented counterexamples (reversed buffer + ligature, deletion of the only flagged glyph), and its simulated passes are replayed primitive by primitive on the real buffer (verif export), the laws being judged on the real states.",
    note="Trusts GuessSegmentProperties for the native direction (a class feature only), signature strings as glyph identity, TLC. Five upstream-shared limitations are known findings identified by a cause class computed from the text (necessary conditions): a regression confined to one of those classes is masked. Texts sampled by seed; the contextual lookups themselves are not modelled, only the buffer protocol they drive.")

CHECKS["C17"] = dict(
    engine="conc",
    technique="TLA+ model of goroutine programs over a shared immutable font (Conc.tla; all interleavings model-checked for sequential equivalence), program sets generated by TLC -simulate, executed free-running on the real library built with the Go race detector over fonts rotating through the corpus, plus a fixed sweep program printed by the spec and run on every AAT/variable font; validated by the ConcV monitor (SeqEquiv, NoRace, Total, Terminates)",
    category="exploration", design_ref="DESIGN.md §5 C17",
    text="TLC supplies the programs and the law (each step's result equals the result of the same program run alone; no race report); the harness runs each program set with 18-72 goroutines sharing six parsed fonts (one per kind of shared data, rotating through the corpus; variations on the font's real axes), sequentially first for reference digests; results are digested after the concurrent phase so that no sync.Pool edge orders the goroutines. "
         "Exploration is the honest level: the library has no synchronisation protocol to model, so memory-level interleavings are sampled by the scheduler and observed by the race detector, not enumerated.",
    note="Trusts the Go race detector and scheduler sampling; sha1 digests as results. The abstract interleaving model says nothing about the code by itself.")
CHECKS["C09"] = dict(
    engine="fault",
    technique="TLA+ fault model (FaultModel.tla) enumerated by TLC into fault plans, applied to corpus font bytes; the load/query/shape lifecycle runs in worker sub-processes and every execution is validated by the FaultV lifecycle monitor (Total, Lifecycle, AllocBound, RawPredicted)",
    category="fault_enumeration", design_ref="DESIGN.md §5 C09",
    text="Every single fault of the model (truncations, directory field boundary values, header words of each table, swaps, table count) and every pair of directory faults on the first tables is applied to each font of the corpus; "
         "the monitor accepts only Ok/Err outcomes, bounds allocation by 64 x size + 64 MiB and predicts the result of RawTable from the directory. Time-outs and dead workers are re-run in isolation three times before they count.",
    note="Function-level known-finding signatures (top library frame + error kind). Not coverage-guided: deep structures are reached through the first 64 bytes of tables and truncations only. Quick tier samples 150 files x 600 plans by seed.")

CHECKS["C10"] = dict(
    engine="glyf",
    technique="PARTIAL: independent decoders written in TLA+ and evaluated by TLC on raw table bytes, compared with what the font package decodes: Glyf.tla (TrueType simple glyphs - flags/repeats, coordinate deltas, implied mid-points, contours as cyclic segment lists, extents, hmtx tail rule - and composite glyphs made of simple components placed by x/y offsets) and CmapBytes.tla (cmap header and encoding records, choice of the Unicode subtable, formats 4/6/10/12/13 decoded at every point where either function can change, against NominalGlyph over all 0x110000 code points) and Avar.tla (fvar clamp / scaling and avar segment maps in exact integer arithmetic, against Font.NormalizeVariations on corner, default, out-of-range, mid-point and random design coordinates of every variable corpus face)",
    category="model_checking", design_ref="DESIGN.md §5 C10, §6",
    text="The property names reference decoders that do not exist in this sandbox; what the TLA+ family can supply is an independent decoder for the integer-only, case-rich part. For every sampled glyph of every TrueType corpus font TLC decodes the raw bytes and checks Outline (each contour equal up to rotation), Extents, Advance and Upem; for every face of the sampled corpus files (all of them in the thorough tier) TLC decodes the raw cmap table and checks CmapDecode (character-to-glyph mapping equal on every code point); for every variable corpus face TLC normalizes design coordinate vectors from the raw fvar / avar tables and checks Normalized. A corrupted copy of one recorded event must be rejected on every run (sensitivity self-test), else the check is undecided.",
    note="PARTIAL CLAIM: CFF/CFF2 outlines, scaled / point-anchored / nested composite glyphs, variation deltas of variable-font instances (gvar/HVAR/MVAR: advances and extents at non-default coordinates), symbol / Macintosh-encoded cmaps and cmap formats 0/2/14 are NOT covered. Trusts the harness's slicing of glyf by loca and TLC.")

NOT_YET = {}
NA = {
 "C05": "defined as agreement with the reference C HarfBuzz; no reference shaper (uharfbuzz/hb-shape) exists in this sealed sandbox and re-specifying HarfBuzz in TLA+ would make the spec the reference (DESIGN §6)",
}

def main():
    props = [json.loads(l) for l in open(os.path.join(V, "properties.jsonl"))]
    hooks = subprocess.run(["git", "-C", "/repo", "log", "--format=%H %s"], stdout=subprocess.PIPE, text=True).stdout.splitlines()
    hook_commits = [l.split()[0] for l in hooks if l.split(" ", 1)[1].startswith("verif:")]
    checks, na = [], []
    for p in props:
        pid = p["id"]
        if pid in CHECKS:
            c = CHECKS[pid]
            checks.append({
                "property_id": pid,
                "quick_cmd": "bin/check %s --tier quick" % pid,
                "thorough_cmd": "bin/check %s --tier thorough" % pid,
                "evidence_file": "evidence/%s.json" % pid,
                "replay_cmd_template": "bin/check %s --replay {path}" % pid,
                "engine": c.get("engine", pid.lower()),
                "level_claimed": {"category": c["category"], "text": c["text"], "design_ref": c["design_ref"]},
                "level_note": c["note"],
                "technique": c["technique"],
            })
        elif pid in NA:
            na.append({"property_id": pid, "reason": NA[pid]})
        else:
            na.append({"property_id": pid, "reason": NOT_YET.get(pid, "check not built yet in this round (planned, see DESIGN.md §5/§12); not claimed until it runs cleanly")})
    m = {
        "version": 1,
        "setup_cmd": "cp /repo/go.sum harness/go.sum && cd harness && GOFLAGS=-mod=mod GOPROXY=off GOSUMDB=off GOTOOLCHAIN=local go build -tags verif -o /dev/null ./cmd/vh && GOFLAGS=-mod=mod GOPROXY=off GOSUMDB=off GOTOOLCHAIN=local go build -race -tags verif -o /dev/null ./cmd/vh",
        "hooks": {
            "guard": "verif",
            "enable": "go build -tags verif (the harness module replaces github.com/go-text/typesetting by /repo's working tree)",
            "baseline_off_cmd": "cd /repo && GOFLAGS=-mod=mod GOPROXY=off GOSUMDB=off go test -vet=off -count=1 -timeout 25m ./...",
            "source_commits": hook_commits,
            "add_only": True,
        },
        "engines": [
            {"name": "vh", "path": "harness/cmd/vh", "serves_properties": sorted(CHECKS), "kind_free_text": "Go driver: enumerates/generates scenarios, runs the real library, records ndjson observations"},
            {"name": "tlc", "path": "spec/", "serves_properties": sorted(CHECKS), "kind_free_text": "TLA+ property specs, implementation models and trace-validation monitors, run by TLC"},
        ],
        "checks": checks,
        "not_applicable": na,
        "notes": "All verdicts come from TLC evaluating TLA+ property specs on observations of the real code; see DESIGN.md.",
    }
    json.dump(m, open(os.path.join(V, "MANIFEST.json"), "w"), indent=1)
    print("claimed:", [c["property_id"] for c in checks], "not claimed:", [n["property_id"] for n in na])

main()
