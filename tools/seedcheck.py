#!/usr/bin/env python3
"""seedcheck.py <PID> <seeded-dir> <i> [check-ids...]
Confirms a seeded change (patch<i>.diff, demo<i>_test.go, meta<i>.json produced by a sub-agent) in a scratch
worktree and runs the given checks (default: PID) against it through VERIF_REPO. Results are stored under
/verif/seeded/<PID>-<name>/ (patch.diff, demo, meta.json with what was run and what was detected)."""
import json, os, re, shutil, subprocess, sys, time

V = "/verif"
ENV = dict(os.environ, GOFLAGS="-mod=mod", GOPROXY="off", GOSUMDB="off", GOTOOLCHAIN="local")


def sh(cmd, cwd=None, env=ENV, timeout=3600):
    p = subprocess.run(cmd, shell=True, cwd=cwd, env=env, stdout=subprocess.PIPE, stderr=subprocess.STDOUT, text=True, timeout=timeout)
    return p.returncode, p.stdout


def main():
    pid, sdir, i = sys.argv[1], sys.argv[2], sys.argv[3]
    checks = sys.argv[4:] or [pid]
    wt = os.environ.get("SEED_WT", "/tmp/mrepo-%s-%s" % (pid, i))
    head = sh("git -C /repo rev-parse HEAD")[1].strip()
    if not os.path.exists(wt):
        sh("git -C /repo worktree add -q --detach %s %s" % (wt, head))
    sh("git checkout -q --detach %s && git checkout -q -- . && git clean -fdq" % head, cwd=wt)
    patch = os.path.join(sdir, "patch%s.diff" % i)
    demo = os.path.join(sdir, "demo%s_test.go" % i)
    meta = json.load(open(os.path.join(sdir, "meta%s.json" % i)))
    res = {"property": pid, "source": "sub-agent given only the property text", "meta": meta, "ran": []}
    rc, out = sh("git apply %s" % patch, cwd=wt)
    res["applies"] = rc == 0
    if rc != 0:
        res["error"] = out[-500:]
        print(json.dumps(res, indent=1)); return
    rc, out = sh("go build ./... && go test -vet=off -count=1 ./...", cwd=wt)
    res["suite_passes_with_change"] = rc == 0
    res["ran"].append("go build ./... && go test -vet=off -count=1 ./...  -> rc=%d" % rc)
    first = open(demo).readline()
    m = re.search(r"copy to:\s*(\S+)", first)
    pkg = m.group(1).strip("/") if m else None
    dst = os.path.join(wt, pkg, "zz_seeded_demo_test.go")
    shutil.copy(demo, dst)
    rc1, out1 = sh("go test -vet=off -count=1 ./%s/" % pkg, cwd=wt)
    res["demo_fails_with_change"] = rc1 != 0
    sh("git apply -R %s" % patch, cwd=wt)
    rc2, out2 = sh("go test -vet=off -count=1 ./%s/" % pkg, cwd=wt)
    res["demo_passes_without_change"] = rc2 == 0
    res["ran"].append("demo in %s: with change rc=%d, without rc=%d" % (pkg, rc1, rc2))
    os.remove(dst)
    sh("git apply %s" % patch, cwd=wt)
    det = {}
    for c in checks:
        env = dict(ENV, VERIF_REPO=wt, VERIF_EVIDENCE_DIR="/tmp/seed-evidence", VERIF_REPLAY_DIR="/tmp/seed-replays/%s-%s" % (pid, i))
        t = time.time()
        rc, out = sh("bin/check %s --tier quick" % c, cwd=V, env=env, timeout=7200)
        viol = [l[:300] for l in out.split("\n") if l.startswith("VIOLATION")]
        det[c] = {"rc": rc, "violations": viol[:6], "n_violation_lines": len(viol), "wall_s": round(time.time() - t, 1),
                  "tail": out[-300:] if rc not in (0, 1) else ""}
        res["ran"].append("VERIF_REPO=<scratch worktree with the change> bin/check %s --tier quick -> rc=%d" % (c, rc))
    res["detected_by"] = [c for c in checks if det[c]["rc"] == 1]
    res["checks"] = det
    name = "%s-%s" % (pid, os.environ.get("SEED_NAME", i))
    out_dir = os.path.join(V, "seeded", name)
    os.makedirs(out_dir, exist_ok=True)
    shutil.copy(patch, os.path.join(out_dir, "patch.diff"))
    shutil.copy(demo, os.path.join(out_dir, "demo_test.go"))
    json.dump(res, open(os.path.join(out_dir, "meta.json"), "w"), indent=1)
    sh("git checkout -q -- . && git clean -fdq", cwd=wt)
    sh("git -C /repo worktree remove --force %s" % wt)
    print(name, "applies", res["applies"], "suite", res["suite_passes_with_change"], "demo fail/pass", res["demo_fails_with_change"], res["demo_passes_without_change"], "detected_by", res["detected_by"])


main()
