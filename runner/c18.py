"""C18 — glyphs not flagged unsafe-to-break are safe cut points (flow V)."""
import json
import os

from .common import NCPU, Undecided


# scripts by the kind of shaper they get (only used to class a failing case against the text's direction)
JOINING = {"Arab", "Syrc", "Mong", "Nkoo", "Phag", "Mand", "Mani", "Phlp", "Adlm", "Rohg", "Sogd", "Chrs", "Ougr"}
PLAIN = {"Latn", "Cyrl", "Grek", "Armn", "Geor", "Hani", "Hira", "Kana", "Zyyy", "Zinh", "Zzzz", "Copt", "Cher", "Ethi", "Hebr", "Thai",
         "Laoo", "Hang", "Tfng", "Bopo", "Yiii", "Cans", "Ogam", "Runr", "Goth", "Dsrt", "Lisu", "Vaii", "Thaa", "Samr", "", "none"}


def has_ligature(ev):
    """some cluster of the whole-text result covers more characters than it has glyphs (fact about the output)"""
    cls = sorted({g["cl"] for g in ev["whole"]})
    for i, cl in enumerate(cls):
        span = (cls[i + 1] if i + 1 < len(cls) else ev["n"]) - cl
        if span >= 2 and sum(1 for g in ev["whole"] if g["cl"] == cl) < span:
            return True
    return False


def run(c, a):
    c.build_vh()
    thorough = c.tier == "thorough"
    c.rule = ("case = (corpus face with GSUB/GPOS and no morx, text drawn from neighbouring code points of the face's own cmap or a script sample the face covers, direction LTR/RTL/TTB); "
              "the whole text is shaped (Bot|Eot), cut at every cluster boundary whose adjacent glyph lacks the unsafe-to-break flag, the pieces shaped with the neighbouring text as context; "
              "judged whenever the whole text's clusters are monotone, in the script's native direction and against it; "
              "non-trivial = >= 2 pieces and >= 1 flagged glyph; distinct = distinct (face, text, direction)")
    c.assumptions = ["native direction = the direction GuessSegmentProperties assigns to the text's script (recorded as a class feature of a failing case only)",
                     "glyph identity and position are compared through a signature string (gid, cluster, advances, offsets)"]
    prefix = os.path.join(c.scratch, "utb")
    out = json.loads(c.vh(["utb", "corpus", 0, 300 if thorough else 40, prefix, NCPU], timeout=7200).stdout)
    c.extra["generated"] = out
    traces = [t for t in ["%s.%02d.ndjson" % (prefix, i) for i in range(NCPU)] if os.path.exists(t) and os.path.getsize(t) > 0]
    res = c.validate("SafeBreakV", traces, timeout=7200, heap="4g")
    for tp, rj, r in res:
        st = rj["stats"]
        c.evaluations += st["n"]
        c.traces += st["n"]
        c.nontrivial += st["nontriv"]
        c.extra["out_of_scope"] = c.extra.get("out_of_scope", 0) + st["oos"]
        if rj["fails"]:
            lines = open(tp).read().split("\n")
            for f in rj["fails"]:
                ev = json.loads(lines[f["line"] - 1])
                if f["pred"] == "HarnessCuts":
                    raise Undecided("harness cut the text elsewhere than the specification: " + ev["id"])
                font = ev["id"].split(" ")[0]
                kind = "total"
                if f["pred"] == "Concat":
                    nw = len(ev["whole"])
                    nf = sum(len(x["sigs"]) for x in ev["frags"])
                    kind = "glyph-count" if nw != nf else "glyph-or-position"
                # class of the case, from facts about the text only (necessary conditions of two known causes)
                if not ev["native"] and ev["rtl"] and (ev["digits"] or not ev["letters"]):
                    cause = "numeric-heuristic"      # ensureNativeDirection decides "numeric run" per buffer, so per fragment
                elif not ev["native"] and ev["joiners"]:
                    cause = "joiner-in-reversed-grapheme"   # graphemes are reversed as units, the context runes are not
                elif not ev["native"] and ev["script"] not in JOINING | PLAIN:
                    cause = "syllabic-shaper-nonnative"     # Indic / USE / Khmer / Myanmar syllable reordering on a reversed buffer
                elif not ev["native"] and has_ligature(ev):
                    cause = "backward-ligature-cluster-merge"   # merging clusters drops the flag of the glyph whose cluster changes
                elif ev["decomp"] and ev["marks"]:
                    cause = "recompose-shortcut"     # the normalizer recomposes only when the buffer holds a mark
                else:
                    cause = "none"
                c.fail("pred=%s cause=%s native=%d script=%s font=%s kind=%s" % (f["pred"], cause, int(ev["native"]), ev["script"], font, kind),
                       "%s text=%s whole=%s frags=%s" % (ev["id"], [hex(x) for x in ev["text"]], str(ev["whole"])[:300], str(ev["frags"])[:300]),
                       {"engine": "utb", "id": ev["id"], "text": ev["text"]})
    from . import hbbufeng
    hbbufeng.run_engine(c, "C18")
    c.exhaustive = False
    for l in open(traces[0]).read().split("\n")[:400]:
        if l and '"unsafe":true' in l and len(c.samples) < 2:
            c.samples.append(json.loads(l))
    if not c.samples:
        c.samples = [json.loads(open(traces[0]).readline())]
