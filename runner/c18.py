"""C18 — glyphs not flagged unsafe-to-break are safe cut points (flow V)."""
import json
import os

from .common import NCPU, Undecided


def run(c, a):
    c.build_vh()
    thorough = c.tier == "thorough"
    c.rule = ("case = (corpus face with GSUB/GPOS and no morx, text drawn from neighbouring code points of the face's own cmap or a script sample the face covers, direction LTR/RTL/TTB); "
              "the whole text is shaped (Bot|Eot), cut at every cluster boundary whose adjacent glyph lacks the unsafe-to-break flag, the pieces shaped with the neighbouring text as context; "
              "judged only for monotone clusters in the script's native horizontal direction (or vertical), as the statement says; "
              "non-trivial = >= 2 pieces and >= 1 flagged glyph; distinct = distinct (face, text, direction)")
    c.assumptions = ["native direction = the direction GuessSegmentProperties assigns to the text's script; other directions are generated, counted as out of scope and not judged",
                     "glyph identity and position are compared through a signature string (gid, cluster, advances, offsets)"]
    prefix = os.path.join(c.scratch, "utb")
    out = json.loads(c.vh(["utb", "corpus", 0, 60 if thorough else 12, prefix, NCPU], timeout=7200).stdout)
    c.extra["generated"] = out
    traces = [t for t in ["%s.%02d.ndjson" % (prefix, i) for i in range(NCPU)] if os.path.exists(t) and os.path.getsize(t) > 0]
    res = c.validate("SafeBreakV", traces, timeout=7200, heap="4g")
    for tp, rj, r in res:
        st = rj["stats"]
        c.evaluations += st["n"]
        c.traces += st["n"]
        c.nontrivial += st["nontriv"]
        c.extra["out_of_scope"] = c.extra.get("out_of_scope", 0) + st["oos"]
        if rj["fails"]:
            lines = open(tp).read().split("\n")
            for f in rj["fails"]:
                ev = json.loads(lines[f["line"] - 1])
                if f["pred"] == "HarnessCuts":
                    raise Undecided("harness cut the text elsewhere than the specification: " + ev["id"])
                font = ev["id"].split(" ")[0]
                kind = "total"
                if f["pred"] == "Concat":
                    nw = len(ev["whole"])
                    nf = sum(len(x["sigs"]) for x in ev["frags"])
                    kind = "glyph-count" if nw != nf else "glyph-or-position"
                c.fail("pred=%s font=%s script=%s kind=%s" % (f["pred"], font, ev["script"], kind),
                       "%s text=%s whole=%s frags=%s" % (ev["id"], [hex(x) for x in ev["text"]], str(ev["whole"])[:300], str(ev["frags"])[:300]),
                       {"engine": "utb", "id": ev["id"], "text": ev["text"]})
    c.exhaustive = False
    for l in open(traces[0]).read().split("\n")[:400]:
        if l and '"unsafe":true' in l and len(c.samples) < 2:
            c.samples.append(json.loads(l))
    if not c.samples:
        c.samples = [json.loads(open(traces[0]).readline())]
