"""C15 — style matching follows CSS Fonts §5.2 (flows M, V)."""
import json
import os

from .common import NCPU


def run(c, a):
    c.build_vh()
    thorough = c.tier == "thorough"
    c.rule = ("vector = (candidate aspect list, requested aspect); enumeration: all multisets of <= K aspects over a stretch x style x weight grid x all requests "
              "(incl. unset and off-grid values), plus random lists of <= 12 aspects over the full CSS grid; non-trivial = no candidate equals the (defaulted) request exactly; "
              "distinct = the enumeration never repeats a vector")
    c.assumptions = ["oblique is folded into italic by this library (font.Style has two values), so CSS's italic/oblique distinction collapses",
                     "candidates always have all three fields set (footprints are built through SetDefaults)"]
    # M: the spec's own promises (non-empty, subset, uniform, exact wins) over the grid
    r = c.tlc_ok("CSSMatchMC", cfg="CSSMatchMC.cfg", workers=NCPU, timeout=1800, heap="8g")
    c.extra["spec_model_states"] = r.distinct
    traces = []
    gen = {}
    plans = [("small", 3 if thorough else 2, "small")]
    if thorough:
        plans.append(("large", 2, "large"))
    for name, k, grid in plans:
        prefix = os.path.join(c.scratch, "css_" + name)
        shards = NCPU * (4 if thorough else 1)
        gen[name] = json.loads(c.vh(["css", "enum", k, grid, prefix, shards]).stdout)
        traces += ["%s.%02d.ndjson" % (prefix, i) for i in range(shards)]
    prefix = os.path.join(c.scratch, "css_rand")
    gen["rand"] = json.loads(c.vh(["css", "rand", 200000 if thorough else 20000, prefix, NCPU]).stdout)
    traces += ["%s.%02d.ndjson" % (prefix, i) for i in range(NCPU)]
    traces = [t for t in traces if os.path.exists(t) and os.path.getsize(t) > 0]
    c.extra["generated"] = gen
    res = c.validate("CSSMatchV", traces, timeout=7200)
    for tp, rj, r in res:
        c.evaluations += rj["n"]
        c.traces += rj["n"]
        c.nontrivial += rj["nontrivial"]
        if rj["fails"]:
            lines = open(tp).read().split("\n")
            for f in rj["fails"]:
                ev = json.loads(lines[f["line"] - 1])
                q = ev["q"]
                wcls = "lt400" if (q["w"] or 400) < 400 else ("400-500" if (q["w"] or 400) <= 500 else "gt500")
                c.fail("pred=%s weightclass=%s stretchreq=%s" % (f["pred"], wcls, "le-normal" if (q["st"] or 1000) <= 1000 else "gt-normal"),
                       "candidates=%s request=%s retained=%s" % (ev["c"], ev["q"], ev["r"]), {"engine": "css", "event": ev})
    c.exhaustive = True
    c.samples = [json.loads(l) for l in open(traces[0]).read().split("\n")[:3] if l]
