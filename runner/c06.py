"""C06 — grapheme, word and line boundaries follow UAX #29 / UAX #14 (flows M, V)."""
import json
import os

from .common import Undecided, NCPU

CONF = {"l": "LineBreakTest.txt", "g": "GraphemeBreakTest.txt", "w": "WordBreakTest.txt"}


def read_line(path, lineno):
    with open(path) as fh:
        for i, line in enumerate(fh, 1):
            if i == lineno:
                return json.loads(line)
    return None


def signature(ev, f):
    cls = [t["c"] for t in ev["s"]]
    if f["pred"] == "Rules" and f["at"]:
        p = min(f["at"])
        lo = max(0, p - 4)
        ctx = " ".join(cls[lo:p]) + " | " + " ".join(cls[p:p + 2])
        return "k=%s pred=Rules ctx=[%s]" % (ev["k"], ctx)
    return "k=%s pred=%s classes=[%s]" % (ev["k"], f["pred"], " ".join(cls[:12]))


def run(c, a):
    from . import common
    c.rule = ("strings = all sequences of length 1..n over the distinct class tuples that occur over all code points "
              "(per kind; representative rune per occurrence chosen by seed) plus random long strings; "
              "non-trivial = expected boundaries are not 'break everywhere' (some rule other than the default decides); "
              "distinct = distinct class sequences (enumeration never repeats one)")
    c.assumptions = ["class of a rune is a fact taken from the library's own lookup tables (their coherence is C20)",
                     "UAX14.tla / UAX29.tla reproduce every sample of the Unicode 14 conformance files (checked on every run)"]
    c.build_vh()
    thorough = c.tier == "thorough"
    # ---- M: iterator protocol model
    r = c.tlc_ok("SegIterMC", cfg="SegIterMC.cfg", workers=4, timeout=600)
    c.extra["iterator_model_states"] = r.distinct

    # ---- spec self-validation against the Unicode conformance files (a disagreement is a spec bug)
    conf_traces = []
    for k, fn in CONF.items():
        p = os.path.join(c.scratch, "conf_%s.ndjson" % k)
        c.vh(["seg", "conf", k, os.path.join(common.REPO, "segmenter", "test", fn)], stdout=p)
        conf_traces.append(p)
    res = c.validate("SegV", conf_traces)
    nconf = 0
    for tp, rj, r in res:
        nconf += rj["n"]
        if rj["fails"]:
            raise Undecided("specification disagrees with the Unicode conformance file %s: %s" % (tp, rj["fails"][:3]))
    c.extra["conformance_samples_reproduced_by_spec"] = nconf

    # ---- V: exhaustive small scopes + random long strings on the real segmenter
    if thorough:
        scopes = [("l", 4), ("g", 6), ("w", 5), ("j", 3)]
        nrand, maxlen = 50000, 64
    else:
        scopes = [("l", 3), ("g", 4), ("w", 3), ("j", 2)]
        nrand, maxlen = 2000, 48
    alph = json.loads(c.vh(["seg", "alphabets"]).stdout)
    c.extra["alphabet_sizes"] = alph
    traces = []
    total_strings = 0
    per_scope = {}
    for k, n in scopes:
        size = sum(alph[k] ** i for i in range(1, n + 1))
        shards = max(1, min(256, size // 60000 + 1))
        if shards < NCPU and size > 8000:
            shards = NCPU
        prefix = os.path.join(c.scratch, "enum_%s" % k)
        out = json.loads(c.vh(["seg", "enum", k, n, prefix, shards], timeout=7200).stdout)
        per_scope["%s<=%d" % (k, n)] = out["strings"]
        total_strings += out["strings"]
        traces += ["%s.%02d.ndjson" % (prefix, i) for i in range(shards)]
    # deeper scopes over the classes that take part in look-behind rules (length exactly n)
    LB_HOT = ["NU", "CL", "CP", "CM", "SA", "ZWJ", "PO", "PR", "SP", "OP", "HY", "IS", "SY", "AL", "RI", "QU", "B2", "ZW", "HL", "BA", "EB", "EM", "ID", "GL", "NS"]
    WB_HOT = ["AL", "HL", "ML", "MNL", "MN", "SQ", "DQ", "NU", "EF", "ENL", "KA", "RI", "WS", "XX", "NL"]
    if thorough:
        deep = [("l", 4, LB_HOT), ("w", 4, WB_HOT), ("l", 5, LB_HOT[:15]), ("w", 5, WB_HOT[:10]),
                ("l", 6, ["NU", "CL", "CM", "SA", "PO", "SP", "OP", "IS", "RI", "ZWJ", "QU"])]
    else:
        deep = [("l", 4, LB_HOT[:19]), ("w", 4, WB_HOT[:9] + ["XX"])]
    for k, n, classes in deep:
        prefix = os.path.join(c.scratch, "deep_%s%d" % (k, n))
        shards = NCPU * (4 if thorough else 1)
        out = json.loads(c.vh(["seg", "enum", k, n, prefix, shards] + classes, timeout=7200).stdout)
        per_scope["%s=%d over %d look-behind classes" % (k, n, len(classes))] = out["strings"]
        total_strings += out["strings"]
        traces += ["%s.%02d.ndjson" % (prefix, i) for i in range(shards)]
    prefix = os.path.join(c.scratch, "rand")
    out = json.loads(c.vh(["seg", "rand", nrand, maxlen, prefix, NCPU]).stdout)
    total_strings += out["strings"]
    per_scope["random<=%d" % maxlen] = out["strings"]
    traces += ["%s.%02d.ndjson" % (prefix, i) for i in range(NCPU)]
    traces = [t for t in traces if os.path.exists(t) and os.path.getsize(t) > 0]
    c.extra["strings_per_scope"] = per_scope
    res = c.validate("SegV", traces, timeout=7200, heap="4g")
    events = 0
    for tp, rj, r in res:
        events += rj["n"]
        c.nontrivial += rj["nontrivial"]
        lines = open(tp).read().split("\n") if rj["fails"] else []   # one pass (a mutant can fail on every event)
        for f in rj["fails"]:
            ev = json.loads(lines[f["line"] - 1])
            sig = signature(ev, f)
            c.fail(sig, "runes=%s pred=%s at=%s observed=%s" % ([hex(x) for x in ev.get("r", [])], f["pred"], f["at"], ev["b"]),
                   {"engine": "seg", "runes": ev.get("r"), "kind": ev["k"], "pred": f["pred"], "at": f["at"],
                    "replay_cmd": "vh seg replay " + " ".join(hex(x) for x in ev.get("r", []))})
    c.evaluations = events
    c.traces = events
    c.exhaustive = True
    if res:
        tp = res[0][0]
        for i in (1, 2, 3):
            ev = read_line(tp, i)
            if ev:
                c.samples.append({"kind": ev["k"], "runes": ev.get("r"), "classes": [t["c"] for t in ev["s"]], "flags": ev["b"], "segments": ev["it"]})
