"""C13 — reusable objects never leak state between uses (flows G, R, V)."""
import json
import os

from .common import NCPU, Undecided
from .c14 import extract_histories

KINDS = {"shaper": (3, 4), "face": (4, 5), "wrap": (3, 4), "split": (4, 5), "seg": (4, 5)}


def run(c, a):
    c.build_vh()
    thorough = c.tier == "thorough"
    c.rule = ("history = sequence of operations on ONE re-used object of a kind (shaper: Shape with 3 faces of 2 fonts x 2 texts, SetFontCacheSize, SetVariations; face: SetVariations/SetPpem/extents/advances; "
              "wrap: WrapParagraph/Prepare/WrapNextLine over 3 paragraphs with equal text but different cluster structure; split; seg), every history up to length D enumerated by TLC (ReuseGen.tla); "
              "each operation is also executed on freshly constructed objects; earlier results are re-digested after every step; "
              "non-trivial = history touching >= 2 distinct cache keys (faces/texts/paragraphs); distinct = distinct histories")
    c.assumptions = ["results are compared through sha1 digests of all exported fields (and the letter-spacing bookkeeping) computed by the harness",
                     "the 'fresh' configuration for a LineWrapper call replays the operations since the last Prepare/WrapParagraph on a new wrapper (that is the documented state a WrapNextLine depends on)"]
    gen = {}
    alltraces = []
    for kind, (dq, dt) in KINDS.items():
        d = dt if thorough else dq
        cfg = os.path.join(c.specdir, "ReuseGen_%s.cfg" % kind)
        s = open(os.path.join(c.specdir, "ReuseGen.cfg")).read().replace("D = 3", "D = %d" % d).replace('Kind = "shaper"', 'Kind = "%s"' % kind)
        open(cfg, "w").write(s)
        g = c.tlc("ReuseGen", cfg="ReuseGen_%s.cfg" % kind, workers=NCPU, timeout=3600, heap="8g")
        if g.rc != 0 or g.error:
            raise Undecided("history generation failed for %s:\n%s" % (kind, g.out[-2000:]))
        c.states += g.distinct
        c.transitions += g.generated
        hp = os.path.join(c.scratch, "hist_%s.ndjson" % kind)
        nh = extract_histories(g.out, hp)
        prefix = os.path.join(c.scratch, "reuse_%s" % kind)
        shards = NCPU if nh > 2000 else 2
        gen[kind] = json.loads(c.vh(["reuse", "exec", kind, hp, prefix, shards], timeout=7200).stdout)
        alltraces += [(kind, "%s.%02d.ndjson" % (prefix, i)) for i in range(shards)]
    c.extra["generated"] = gen
    traces = [t for k, t in alltraces if os.path.exists(t) and os.path.getsize(t) > 0]
    res = c.validate("ReuseV", traces, timeout=7200, heap="4g")
    for tp, rj, r in res:
        st = rj["stats"]
        c.evaluations += st["ops"]
        c.traces += st["hist"]
        c.nontrivial += st["nontriv"]
        c.extra["rechecks"] = c.extra.get("rechecks", 0) + st["rechecks"]
        if rj["fails"]:
            lines = open(tp).read().split("\n")
            for f in rj["fails"]:
                i = f["line"] - 1
                j = i
                while json.loads(lines[j])["ev"] != "New":
                    j -= 1
                new = json.loads(lines[j])
                ops = new["ops"]
                # position of the failing op within the history
                nop = sum(1 for x in lines[j + 1:i + 1] if '"ev":"Op"' in x)
                upto = ops[:nop]
                shape = ",".join("%s%s" % (o["op"], ("(" + o["face"] + ")") if o.get("face") else "") for o in upto)
                c.fail("kind=%s pred=%s ops=%s" % (new["kind"], f["pred"], shape), "history=%s failing_event=%s" % (json.dumps(ops), lines[i][:300]),
                       {"engine": "reuse", "kind": new["kind"], "ops": ops})
    c.exhaustive = True
    c.samples = [json.loads(l) for l in open(traces[0]).read().split("\n")[:5] if l]
