"""C09 — font loading and querying are total on arbitrary bytes (fault enumeration from a TLA+ fault model)."""
import json
import os

from .common import NCPU, Undecided
from .c14 import extract_histories

LEVEL = "fault_enumeration"


def kind_of(res):
    for k, pat in (("index", "index out of range"), ("slice", "slice bounds out of range"), ("nil", "nil pointer"), ("makeslice", "makeslice"),
                   ("divide", "integer divide"), ("conversion", "interface conversion")):
        if pat in res:
            return k
    return "other"


def tags_of(ev):
    """faulted tables of an execution; the two OpenType layout tables share their parser (script / feature /
    lookup lists) and its amplification weakness, whatever other table a swap plan pairs them with"""
    tags = set(ev.get("tags") or ["file"])
    if tags & {"GSUB", "GPOS"}:
        return "layout"
    return ",".join(sorted(tags))


def sig_of_result(r0, step, ev):
    """function-level signature for panics; resource exhaustion (time-out, dead worker) is keyed by the
    faulted tables, because whether an allocation storm ends as a time-out or as an out-of-memory kill,
    and in which function, depends on the load of the machine"""
    if r0.startswith("panic:"):
        return "pred=Total site=%s kind=%s" % (r0.split(":")[1].strip(), kind_of(r0))
    if r0.startswith("crash:stack-overflow"):
        return "pred=Total crash=stack-overflow table=%s" % tags_of(ev)
    return "pred=Total exhaustion table=%s" % tags_of(ev)


def recheck(c, ev):
    """re-run one execution alone, three times; returns (signature, result) when every run fails, else None"""
    import subprocess
    outcomes = []
    for _ in range(3):
        try:
            p = subprocess.run(["sh", "-c", 'ulimit -v 8000000; exec "$0" fault one "$1" "$2"', c.vhbin, ev["font"], json.dumps(ev["plan"])],
                               stdout=subprocess.PIPE, stderr=subprocess.PIPE, text=True, timeout=90, env=c.env({"GOMAXPROCS": "2", "GOMEMLIMIT": "3GiB"}))
        except subprocess.TimeoutExpired:
            outcomes.append((sig_of_result("timeout", "process", ev), "no result within 90 s"))
            continue
        if p.returncode == 0 and p.stdout.strip().startswith("{"):
            e = json.loads(p.stdout)
            e["tags"] = ev.get("tags") or e.get("tags")
            bad = next(((s["name"], s["res"]) for s in e["steps"] if s["res"] not in ("ok", "err")), None)
            if bad is None:
                if e["allockb"] > 64 * (e["size"] // 1024 + 1) + 65536:
                    outcomes.append(("pred=AllocBound table=" + tags_of(e), "live heap grew by %d KiB" % e["allockb"]))
                else:
                    outcomes.append(None)
            else:
                outcomes.append((sig_of_result(bad[1], bad[0], e), bad[1]))
        else:
            es = p.stderr
            if "stack overflow" in es or "goroutine stack exceeds" in es:
                outcomes.append((sig_of_result("crash:stack-overflow", "process", ev), es[-200:].replace("\n", " | ")))
            else:
                outcomes.append((sig_of_result("crash:oom", "process", ev), es[-200:].replace("\n", " | ")))
    real = [o for o in outcomes if o is not None]
    if len(real) < 3:
        return None
    return real[0]


def run(c, a):
    c.build_vh()
    thorough = c.tier == "thorough"
    c.rule = ("execution = (corpus font file, fault plan): the plan list is enumerated by TLC from FaultModel.tla (every single fault: truncation at table boundaries / inside headers, "
              "directory offset/length set to boundary values, every 16/32-bit word of the first 64 bytes of each of the first 16 tables set to 5 boundary values, body swaps, table-count lies; "
              "every pair of directory faults on the first 3 tables); each applicable plan is applied to the file's bytes and the load/query/shape lifecycle is run in a worker sub-process "
              "(recover, 5 s watchdog per step, allocation accounting, address-space limit); non-trivial = execution whose Open succeeded (the fault reached table parsing / queries); distinct = distinct (file, plan)")
    c.assumptions = ["fatal errors (stack overflow, out of memory) are observed as a dead worker process and attributed to the plan in flight",
                     "known-finding signatures are function-level (top frame inside the library + runtime error kind): a new panic of the same kind in an already listed function is masked",
                     "deep table structures are reached only through the first 64 bytes of each table and through truncations; no coverage-guided mutation"]
    g = c.tlc("FaultModel", cfg="FaultModel.cfg", workers=NCPU, timeout=1800, heap="6g")
    if g.rc != 0 or g.error:
        raise Undecided("fault plan generation failed:\n" + g.out[-2000:])
    c.extra["fault_model_states"] = g.distinct
    pp = os.path.join(c.scratch, "plans.ndjson")
    nplans = extract_histories(g.out, pp)
    prefix = os.path.join(c.scratch, "flt")
    out = json.loads(c.vh(["fault", "run", 0 if thorough else 150, 0 if thorough else 600, pp, prefix, NCPU], timeout=4 * 3600).stdout)
    c.extra["generated"] = out
    traces = [t for t in ["%s.%02d.ndjson" % (prefix, i) for i in range(NCPU)] if os.path.exists(t) and os.path.getsize(t) > 0]
    # re-shard: the per-font files are unbalanced and can be large
    big = os.path.join(c.scratch, "flt_all.ndjson")
    with open(big, "w") as fh:
        for t in traces:
            fh.write(open(t).read())
    from .common import shard_lines
    shards = shard_lines(big, NCPU * (8 if thorough else 1), os.path.join(c.scratch, "flts"))
    res = c.validate("FaultV", shards, timeout=4 * 3600, heap="4g")
    prelim = {}   # preliminary signature -> list of (event, failing step, result)
    for tp, rj, r in res:
        st = rj["stats"]
        c.evaluations += st["execs"]
        c.nontrivial += st["opened"]
        if rj["fails"]:
            lines = open(tp).read().split("\n")
            for f in rj["fails"]:
                ev = json.loads(lines[f["line"] - 1])
                if f["pred"] == "Total":
                    for s in ev["steps"]:
                        if s["res"] not in ("ok", "err"):
                            prelim.setdefault(sig_of_result(s["res"], s["name"], ev), []).append((ev, s["name"], s["res"]))
                            break
                elif f["pred"] == "AllocBound":
                    prelim.setdefault("pred=AllocBound table=" + tags_of(ev), []).append((ev, "", "live heap grew by %d KiB for a %d byte file" % (ev["allockb"], ev["size"])))
                else:
                    prelim.setdefault("pred=%s" % f["pred"], []).append((ev, "", str(ev["raw"])[:300]))
    # Timeouts, dead workers and allocation-bound excesses are only believed when they reproduce in isolation (a loaded machine must not raise alarms);
    # the isolated run also gives the definitive classification (a time-out under load is usually an allocation storm).
    dropped = 0
    for sig, items in sorted(prelim.items()):
        if sig.startswith("pred=Total exhaustion") or sig.startswith("pred=Total crash=") or sig.startswith("pred=AllocBound"):
            for ev, step, r0 in items[:3]:
                final = recheck(c, ev)
                if final is None:
                    dropped += 1
                    continue
                fsig, fres = final
                c.fail(fsig, "font=%s plan=%s isolated_result=%s (in the parallel run: %s)" % (ev["font"], json.dumps(ev["plan"]), fres[:200], r0[:80]),
                       {"engine": "fault", "font": ev["font"], "plan": ev["plan"], "replay_cmd": "vh fault one '%s' '%s'" % (ev["font"], json.dumps(ev["plan"]))})
        else:
            for ev, step, r0 in items:
                c.fail(sig, "font=%s plan=%s step=%s result=%s" % (ev["font"], json.dumps(ev["plan"]), step, r0[:200]),
                       {"engine": "fault", "font": ev["font"], "plan": ev["plan"], "replay_cmd": "vh fault one '%s' '%s'" % (ev["font"], json.dumps(ev["plan"]))})
    c.extra["not_reproduced_in_isolation"] = dropped
    c.exhaustive = thorough
    for l in open(shards[0]).read().split("\n")[:3]:
        if l:
            e = json.loads(l)
            e["raw"] = e["raw"][:3]
            c.samples.append(e)
