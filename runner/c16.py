"""C16 — the system font index survives persistence, corruption and incremental refresh (flows M, G, R, V)."""
import json
import os

from .common import NCPU, Undecided
from .c14 import extract_histories


def run(c, a):
    c.build_vh()
    thorough = c.tier == "thorough"
    c.rule = ("history = Write/Remove/Touch/Rename of font files (2 paths incl. a sub-directory, 3 contents incl. a non-font), Refresh, Save, Crash, Load, every history up to length D "
              "ending in a Refresh enumerated by TLC (FontIndex.tla, which also model-checks the incremental algorithm against RefreshEqScratch); executed in a temporary directory with real fonts "
              "and os.Chtimes as the clock; plus, for sampled final states, EVERY truncation of the serialized index and single-byte corruptions (x3 masks); "
              "non-trivial = refresh that reuses >= 1 and rescans >= 1 entry, or a read of a strictly truncated/corrupted stream; distinct = distinct histories / byte positions")
    c.assumptions = ["monotone clock: every content write gets a fresh mtime (an mtime-keyed index cannot see a same-mtime replacement; stated in FontIndex.tla)",
                     "index entries are compared through the sha1 digest of the complete serialization of their footprints (file name blanked, checked separately)"]
    d = 5 if thorough else 4
    cfg = os.path.join(c.specdir, "FontIndex.cfg")
    s = open(cfg).read().replace("D = 4", "D = %d" % d)
    open(cfg, "w").write(s)
    g = c.tlc("FontIndex", cfg="FontIndex.cfg", workers=NCPU, timeout=3600, heap="8g")
    if g.rc != 0 or g.error or g.violation:
        raise Undecided("FontIndex model check / generation failed:\n" + g.out[-2500:])
    c.states += g.distinct
    c.transitions += g.generated
    c.extra["model_states"] = g.distinct
    hp = os.path.join(c.scratch, "fi_hist.ndjson")
    nh = extract_histories(g.out, hp)
    prefix = os.path.join(c.scratch, "fi")
    shards = NCPU
    out = json.loads(c.vh(["fidx", "exec", hp, prefix, shards, 24 if thorough else 4], timeout=7200).stdout)
    c.extra["generated"] = out
    traces = [t for t in ["%s.%02d.ndjson" % (prefix, i) for i in range(shards)] if os.path.exists(t) and os.path.getsize(t) > 0]
    res = c.validate("FontIndexV", traces, timeout=7200, heap="4g")
    for tp, rj, r in res:
        st = rj["stats"]
        c.evaluations += st["refresh"] + st["reads"]
        c.traces += st["hist"]
        c.nontrivial += st["nontriv"]
        if rj["fails"]:
            lines = open(tp).read().split("\n")
            for f in rj["fails"]:
                i = f["line"] - 1
                ev = json.loads(lines[i])
                j = i
                while json.loads(lines[j])["ev"] != "New":
                    j -= 1
                hist = [json.loads(x) for x in lines[j + 1:i + 1] if '"ev":"Read"' not in x]
                ops = ",".join(h["ev"] for h in hist)
                if ev["ev"] == "Read":
                    sig = "pred=%s read=%s res=%s" % (f["pred"], ev["kind"], ev["res"])
                else:
                    sig = "pred=%s at=%s ops=%s" % (f["pred"], ev["ev"], ops)
                c.fail(sig, "history=%s event=%s" % (json.dumps(hist)[:800], json.dumps(ev)[:300]), {"engine": "fidx", "history": hist, "event": ev})
    c.exhaustive = True
    c.samples = [json.loads(l) for l in open(traces[0]).read().split("\n")[1:6] if l]
