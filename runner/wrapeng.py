"""Shared wrapping engine (C02, C03, C04, C08): Go driver `vh wrap` -> ndjson -> WrapV.tla monitor."""
import json
import os

from .common import NCPU, Undecided

PREDS = {
    "C02": {"NonEmpty", "Contig", "Piece", "Sum", "Cover", "Total", "Progress", "AfterDone", "Terminates"},
    "C03": {"LegalEnd", "NoIntraCluster", "Mandatory", "SplitOnlyWhenNecessary"},
    "C04": {"Fits", "Greedy", "TruncGreedy", "TruncCount", "Truncator"},
    "C08": {"VisPerm", "VisL2", "TrimTarget", "TrimApplied"},
}


def features(p, ln, k):
    """class features of a failing case, computed from the recorded scenario (facts only)."""
    cb = {0, p["n"]}
    for r in p["runs"]:
        cb.add(r["off"])
        cb.add(r["off"] + r["cnt"])
        for g in r["g"]:
            cb.add(g[0])
    icwb = any(x not in cb for x in p["wb"])
    cfg = p["cfg"]
    truncline = cfg["trunc"] > 0 and k == cfg["trunc"]
    base = cfg["pdir"]
    hi = max([r.get("lvl", base) for r in p["runs"]] + [base])
    return {"cls": p.get("cls", "?"), "icwb": int(icwb), "truncline": int(truncline), "multirun": int(len(p["runs"]) > 1),
            "pol": cfg["pol"], "deep": int(hi >= base + 2), "rtlrun": int(any(r["dir"] == 1 for r in p["runs"])),
            "api": p.get("api", "?")}


def signature(pred, f):
    if pred in ("VisL2", "TrimTarget", "TrimApplied", "VisPerm"):
        return "pred=%s cls=%s deep=%d" % (pred, f["cls"], f["deep"])
    if pred in ("Sum", "Piece"):
        return "pred=%s cls=%s rtlrun=%d" % (pred, f["cls"], f["rtlrun"])
    return "pred=%s cls=%s icwb=%d truncline=%d multirun=%d pol=%d" % (pred, f["cls"], f["icwb"], f["truncline"], f["multirun"], f["pol"])


def collect(c, pid, results):
    """map validator failures to scenario lines; report the ones owned by property pid."""
    mine = PREDS[pid]
    for tp, rj, r in results:
        st = rj["stats"]
        c.evaluations += st["para"]
        c.nontrivial += st["nontriv"]
        c.traces += st["para"]
        c.extra["line_events"] = c.extra.get("line_events", 0) + st["lines"]
        byline = {}
        for f in rj["fails"]:
            pr = f["pred"]
            c.extra.setdefault("fails_by_pred_all_properties", {})
            c.extra["fails_by_pred_all_properties"][pr] = c.extra["fails_by_pred_all_properties"].get(pr, 0) + 1
            if pr in mine:
                byline.setdefault(f["line"], []).append(pr)
        if not byline:
            continue
        lastp, k = None, 0
        with open(tp) as fh:
            for i, line in enumerate(fh, 1):
                if line.startswith('{"ev":"P"'):
                    lastp, k = line, 0
                elif line.startswith('{"ev":"L"'):
                    k += 1
                if i in byline:
                    p = json.loads(lastp)
                    ln = json.loads(line)
                    ft = features(p, ln, k)
                    for pr in byline[i]:
                        if ft["cls"] == "lsrtl" and pid in ("C03", "C04"):
                            # letter spacing on right-to-left runs: start/end spacing is array-order based in the
                            # code and the width predicates are not defined for it (DESIGN §5 C04, limits)
                            c.extra["out_of_scope_lsrtl"] = c.extra.get("out_of_scope_lsrtl", 0) + 1
                            continue
                        c.fail(signature(pr, ft),
                               "%s on line %d of paragraph %s cfg=%s w=%s line=%s" % (pr, k, p["id"], p["cfg"], ln.get("w"), json.dumps(ln)[:400]),
                               {"engine": "wrap", "pred": pr, "scenario": p.get("rp"), "id": p["id"], "line_no": k,
                                "replay_cmd": "vh wrap replay '%s'" % json.dumps(p.get("rp"))})


def run_engine(c, pid):
    c.build_vh()
    thorough = c.tier == "thorough"
    c.rule = ("paragraph = synthetic shaped runs over text in {a, SP, LF, U+0301, '-'}^<=N x all cluster partitions x 1-2 glyphs per cluster x <=R runs x LTR/RTL "
              "x paragraph direction x 3 policies x truncation {0,1,2} x TextContinues x every width 0..total+1 (both APIs, trim on/off sampled by seed), "
              "plus letter/word-spacing, level-sequence (bidi) classes and real paragraphs through Split -> Shape -> AddSpacing on four corpus fonts (ligatures, multi-glyph clusters, mixed scripts); UAX #14/#29 boundaries are facts from the real segmenter (checked by C06); "
              "non-trivial = paragraph produced >= 2 lines or a truncator; distinct = distinct (scenario, config, width) keys (the enumeration never repeats one)")
    c.assumptions = ["break opportunities are taken from the real segmenter (C06 checks them against UAX #14/#29)",
                     "synthetic runs respect the shaper's contract: cluster boundaries are grapheme boundaries, glyph arrays in visual order",
                     "widths are measured as Wrap.tla defines them (trailing whitespace / end letter spacing discounted only when the last run has the paragraph direction)"]
    traces = []
    plan = []
    if thorough:
        plan.append(("core", ["enum", 4, 2, "core"]))
        plan.append(("core3", ["enum", 3, 3, "core"]))
        plan.append(("words", ["enum", 7, 2, "words"]))
        plan.append(("ls", ["enum", 4, 2, "ls"]))
        plan.append(("ls3", ["enum", 3, 3, "ls"]))
        bidi_n = 7
    else:
        plan.append(("core", ["enum", 3, 2, "core"]))
        plan.append(("words", ["enum", 5, 1, "words"]))
        plan.append(("ls", ["enum", 3, 2, "ls"]))
        plan.append(("ls3", ["enum", 3, 3, "ls"]))     # three runs: a line may start with a whole run and go on
        bidi_n = 5
    # paragraphs of > 100 lines (beyond the wrapper's initial line storage), one per shard: WrapV's recursive definitions are
    # quadratic in the paragraph length (a 200-rune paragraph takes ~10 s), so the class is kept to a dozen paragraphs
    plan.append(("long", ["long"]))
    if pid == "C08":
        plan = [p for p in plan if p[0] in ("core",)]
    only = os.environ.get("VERIF_ONLY")
    if only:
        plan = [p for p in plan if p[0] in only.split(",")]
    counts = {}
    for name, args in plan:
        prefix = os.path.join(c.scratch, "w_" + name)
        shards = NCPU * (16 if thorough else 1)
        out = json.loads(c.vh(["wrap"] + args + [prefix, shards], timeout=7200).stdout)
        counts[name] = out
        traces += ["%s.%02d.ndjson" % (prefix, i) for i in range(shards)]
    if not only or "real" in only.split(","):
        prefix = os.path.join(c.scratch, "w_real")
        out = json.loads(c.vh(["wrap", "real", 20000 if thorough else 1500, prefix, NCPU], timeout=7200).stdout)
        counts["real"] = out
        traces += ["%s.%02d.ndjson" % (prefix, i) for i in range(NCPU)]
    prefix = os.path.join(c.scratch, "w_bidi")
    out = json.loads(c.vh(["wrap", "bidi", bidi_n, prefix, NCPU]).stdout)
    counts["bidi"] = out
    traces += ["%s.%02d.ndjson" % (prefix, i) for i in range(NCPU)]
    traces = [t for t in traces if os.path.exists(t) and os.path.getsize(t) > 0]
    c.extra["generated"] = counts
    res = c.validate("WrapV", traces, timeout=7200, heap="6g", par=NCPU)
    collect(c, pid, res)
    c.exhaustive = False  # exhaustive up to N=3 (thorough) / N=2 (quick); the longest texts are sampled by seed: the quick tier samples (config, width) combinations of the longest texts by seed
    # samples
    with open(traces[0]) as fh:
        for i, line in enumerate(fh):
            if i >= 4:
                break
            e = json.loads(line)
            e.pop("rp", None)
            c.samples.append(e)
