"""C19 — written font files read back unchanged (flow V on enumerated and random table lists)."""
import json
import os

from .common import NCPU


def run(c, a):
    c.build_vh()
    thorough = c.tier == "thorough"
    c.rule = ("file = list of 0..K distinctly tagged tables sorted by tag; enumeration: every vector of table lengths in 0..L (all residues mod 4), "
              "byte values drawn by seed from {0,1,0x7F,0x80,0xFF}, each input slice with 0/3/8 bytes of sentinel-filled spare capacity; plus random lists of up to 40 tables; "
              "non-trivial = some table length not divisible by four; distinct = distinct length vectors / random files")
    c.assumptions = ["structural validity is what Sfnt.tla states: header search fields, directory in tag order, checksums of zero-padded bodies, offsets/lengths describing disjoint bodies inside the file (4-byte alignment of bodies is not demanded: the property does not state it)"]
    traces = []
    gen = {}
    shards = NCPU * (2 if thorough else 1)
    prefix = os.path.join(c.scratch, "sf_enum")
    gen["enum"] = json.loads(c.vh(["sfnt", "enum", 4 if thorough else 3, 9, prefix, shards]).stdout)
    traces += ["%s.%02d.ndjson" % (prefix, i) for i in range(shards)]
    prefix = os.path.join(c.scratch, "sf_rand")
    gen["rand"] = json.loads(c.vh(["sfnt", "rand", 20000 if thorough else 1500, 40, 40, prefix, NCPU]).stdout)
    traces += ["%s.%02d.ndjson" % (prefix, i) for i in range(NCPU)]
    traces = [t for t in traces if os.path.exists(t) and os.path.getsize(t) > 0]
    c.extra["generated"] = gen
    res = c.validate("SfntV", traces, timeout=7200, heap="4g")
    for tp, rj, r in res:
        c.evaluations += rj["n"]
        c.traces += rj["n"]
        c.nontrivial += rj["nontrivial"]
        if rj["fails"]:
            lines = open(tp).read().split("\n")
            for f in rj["fails"]:
                ev = json.loads(lines[f["line"] - 1])
                lens = [len(t["bytes"]) for t in ev["tables"]]
                res4 = sorted(set(x % 4 for x in lens))
                zero_last = bool(lens) and lens[-1] == 0
                c.fail("pred=%s residues=%s zerolast=%d spare=%d" % (f["pred"], res4, int(zero_last), int(any(ev["spare"]))),
                       "lengths=%s spare=%s loaderr=%s" % (lens, ev["spare"], ev["loaderr"]),
                       {"engine": "sfnt", "tables": ev["tables"], "spare": ev["spare"]})
    c.exhaustive = True
    for l in open(traces[0]).read().split("\n")[:3]:
        if l:
            e = json.loads(l)
            c.samples.append({"tables": e["tables"], "out_len": len(e["out"]), "spare": e["spare"]})
