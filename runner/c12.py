"""C12 — shaped output geometry is self-consistent (flow V on real shapings and synthetic spacing)."""
from . import shapeeng


def run(c, a):
    shapeeng.run_engine(c, "C12")
