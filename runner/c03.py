"""C03 — see DESIGN.md §5; shared wrapping engine (runner/wrapeng.py, spec/Wrap.tla, spec/WrapV.tla)."""
from . import wrapeng


def run(c, a):
    wrapeng.run_engine(c, "C03")
