"""Common machinery for the /verif checks: scratch dirs, harness build, TLC runs,
trace validation (sharded), known-finding matching, evidence writing.

Exit codes of a check: 0 = property held on everything explored (known findings are
printed as KNOWN-FINDING lines), 1 = violation (VIOLATION line printed), 2 = the machinery
could not decide (build failure, TLC crash, timeout); exit 2 never prints VIOLATION.
"""
import atexit
import concurrent.futures as cf
import json
import os
import re
import shutil
import subprocess
import sys
import tempfile
import time

VERIF = os.path.dirname(os.path.dirname(os.path.abspath(__file__)))
REPO = os.environ.get("VERIF_REPO", "/repo")
TLA_CP = "/opt/veriftools/tla/tla2tools.jar:/opt/veriftools/tla/CommunityModules-deps.jar"
NCPU = os.cpu_count() or 4

GOENV = dict(GOFLAGS="-mod=mod", GOPROXY="off", GOSUMDB="off", GOTOOLCHAIN="local")


class Undecided(Exception):
    pass


class TLCResult:
    def __init__(self, rc, out, wall):
        self.rc = rc
        self.out = out
        self.wall = wall
        self.generated = 0
        self.distinct = 0
        self.queue = 0
        self.depth = 0
        self.coverage = {}
        m = None
        for m in re.finditer(r"(\d+) states generated, (\d+) distinct states found, (\d+) states left on queue", out):
            pass
        if m:
            self.generated, self.distinct, self.queue = int(m.group(1)), int(m.group(2)), int(m.group(3))
        m = re.search(r"depth of the complete state graph search is (\d+)", out)
        if m:
            self.depth = int(m.group(1))
        # coverage lines: "<Action line 12, col 1 to line 20, col 30 of module X>: 12:345"
        for m in re.finditer(r"^<(\w+) line \d+, col \d+ to line \d+, col \d+ of module (\w+)>: (\d+):(\d+)", out, re.M):
            self.coverage[m.group(2) + "." + m.group(1)] = (int(m.group(3)), int(m.group(4)))
        self.violation = ("Invariant " in out and " is violated" in out) or "Temporal properties were violated" in out \
            or "is violated by the initial state" in out or "Action property" in out and "is violated" in out
        self.error = ("Error:" in out) and not self.violation
        self.finished = "Model checking completed" in out or "Finished in" in out


class Check:
    def __init__(self, pid, tier, seed, level="model_checking"):
        self.pid = pid
        self.tier = tier
        self.seed = seed
        self.level = level
        self.t0 = time.time()
        base = os.environ.get("TMPDIR", "/tmp")
        self.scratch = tempfile.mkdtemp(prefix="verif-%s-" % pid, dir=base)
        atexit.register(lambda: shutil.rmtree(self.scratch, ignore_errors=True))
        self.specdir = os.path.join(self.scratch, "spec")
        shutil.copytree(os.path.join(VERIF, "spec"), self.specdir)
        self.vhbin = None
        # evidence accumulators
        self.states = 0
        self.transitions = 0
        self.traces = 0
        self.evaluations = 0
        self.nontrivial = 0
        self.samples = []
        self.extra = {}
        self.assumptions = []
        self.rule = ""
        self.exhaustive = None
        self.violations = []   # (signature, description, replay-data)
        self.known = []
        self.notes = []
        self.kf = load_known()

    # ------------------------------------------------------------------ build
    def env(self, extra=None):
        e = dict(os.environ)
        e.update(GOENV)
        e["VERIF_SEED"] = str(self.seed)
        e["VERIF_TIER"] = self.tier
        e["VERIF_REPO"] = REPO
        if extra:
            e.update({k: str(v) for k, v in extra.items()})
        return e

    def build_vh(self, race=False):
        """go build the harness against REPO's current working tree with tag verif."""
        out = os.path.join(self.scratch, "vh-race" if race else "vh")
        hdir = os.path.join(VERIF, "harness")
        args = ["go", "build", "-tags", "verif", "-o", out]
        if race:
            args.insert(2, "-race")
        if REPO != "/repo":
            mf = os.path.join(self.scratch, "go.mod")
            src = open(os.path.join(hdir, "go.mod")).read().replace("=> /repo", "=> " + REPO)
            open(mf, "w").write(src)
            shutil.copy(os.path.join(REPO, "go.sum"), os.path.join(self.scratch, "go.sum"))
            args += ["-modfile", mf]
        else:
            # keep go.sum in sync with the repository (setup_cmd does this too)
            try:
                shutil.copy(os.path.join(REPO, "go.sum"), os.path.join(hdir, "go.sum"))
            except OSError:
                pass
        args.append("./cmd/vh")
        p = subprocess.run(args, cwd=hdir, env=self.env(), stdout=subprocess.PIPE, stderr=subprocess.STDOUT, text=True)
        if p.returncode != 0:
            raise Undecided("harness build failed:\n" + p.stdout[-4000:])
        if race:
            self.vhrace = out
        else:
            self.vhbin = out
        return out

    def vh(self, args, env=None, timeout=3600, stdout=None, check=True, binary=None):
        """run the Go harness; returns CompletedProcess (stdout captured unless a file is given)."""
        b = binary or self.vhbin or self.build_vh()
        so = open(stdout, "w") if stdout else subprocess.PIPE
        try:
            p = subprocess.run([b] + [str(a) for a in args], env=self.env(env), cwd=self.scratch,
                               stdout=so, stderr=subprocess.PIPE, text=True, timeout=timeout)
        except subprocess.TimeoutExpired:
            raise Undecided("harness timeout: vh " + " ".join(map(str, args)))
        finally:
            if stdout:
                so.close()
        if check and p.returncode != 0:
            raise Undecided("harness failed (rc=%d): vh %s\n%s" % (p.returncode, " ".join(map(str, args)), (p.stderr or "")[-4000:]))
        return p

    # ------------------------------------------------------------------ TLC
    def tlc(self, module, cfg=None, env=None, workers=1, timeout=1800, simulate=None, depth=None,
            coverage=False, heap="4g", extra=None, name=None, deadlock=False):
        name = name or module
        meta = tempfile.mkdtemp(prefix="meta-", dir=self.scratch)
        cmd = ["timeout", str(timeout), "java", "-Xss512m", "-Xmx" + heap, "-XX:+UseSerialGC" if workers == 1 else "-XX:+UseParallelGC", "-XX:CICompilerCount=2", "-cp", TLA_CP,
               "tlc2.TLC", "-metadir", meta, "-workers", str(workers), "-noGenerateSpecTE"]
        if cfg:
            cmd += ["-config", cfg]
        if simulate:
            cmd += ["-simulate", simulate]
        if depth:
            cmd += ["-depth", str(depth)]
        if coverage:
            cmd += ["-coverage", "1"]
        if deadlock:
            cmd += ["-deadlock"]
        if simulate or extra and "-seed" in extra:
            pass
        if extra:
            cmd += extra
        cmd.append(module)
        t = time.time()
        p = subprocess.run(cmd, cwd=self.specdir, env=self.env(env), stdout=subprocess.PIPE, stderr=subprocess.STDOUT, text=True)
        r = TLCResult(p.returncode, p.stdout, time.time() - t)
        shutil.rmtree(meta, ignore_errors=True)
        if p.returncode == 124:
            raise Undecided("TLC timeout on %s" % name)
        return r

    def tlc_ok(self, *a, **kw):
        """model-check run that must complete without violation or error (flow M)."""
        r = self.tlc(*a, **kw)
        if r.violation or r.error or r.rc != 0:
            raise Undecided("TLC run %s did not complete cleanly (rc=%d):\n%s" % (a[0], r.rc, r.out[-3000:]))
        self.states += r.distinct
        self.transitions += r.generated
        return r

    def validate(self, module, traces, cfg=None, env=None, timeout=3600, heap="3g", par=None):
        """flow V: run monitor spec `module` over each trace file (one TLC process each, up to `par`
        in parallel). Each run writes a JSON {n:…, fails:[…]} to VERIF_OUT. Returns list of
        (trace_path, result_json, TLCResult)."""
        par = par or NCPU
        cfg = cfg or (module + ".cfg")

        def one(tp):
            outp = tp + ".out.json"
            e = dict(env or {})
            e.update(VERIF_TRACE=tp, VERIF_OUT=outp)
            r = self.tlc(module, cfg=cfg, env=e, workers=1, timeout=timeout, heap=heap, name=module + ":" + os.path.basename(tp))
            if not os.path.exists(outp):
                raise Undecided("validator %s produced no result for %s (rc=%d):\n%s" % (module, tp, r.rc, r.out[-3000:]))
            res = json.load(open(outp))
            return tp, res, r

        results = []
        with cf.ThreadPoolExecutor(max_workers=par) as ex:
            for tp, res, r in ex.map(one, traces):
                self.states += r.distinct
                self.transitions += r.generated
                results.append((tp, res, r))
        return results

    # ------------------------------------------------------------------ verdicts
    def fail(self, signature, description, replay=None):
        """record one failing case; matched against known findings at finish()."""
        self.violations.append((signature, description, replay))

    def note(self, s):
        self.notes.append(s)
        print("NOTE " + s, flush=True)

    def finish(self):
        wall = time.time() - self.t0
        known_sigs = {}
        for f in self.kf.get("findings", []):
            if f["property"] == self.pid:
                known_sigs[f["signature"]] = f
        new, known = [], {}
        for sig, desc, rep in self.violations:
            k = match_known(sig, known_sigs)
            if k is not None:
                known.setdefault(k, []).append((sig, desc))
            else:
                new.append((sig, desc, rep))
        for k, items in sorted(known.items()):
            print("KNOWN-FINDING: property=%s %s (%d cases, e.g. %s)" % (self.pid, k, len(items), items[0][1][:200]), flush=True)
        for k in sorted(known_sigs):
            if k not in known:   # listed, but this run's (seeded) sample did not reach it
                print("KNOWN-FINDING: property=%s %s (listed in known_findings.json; not reached by this run: %s)" % (self.pid, k, known_sigs[k]["description"][:160]), flush=True)
        rc = 0
        rdir = os.environ.get("VERIF_REPLAY_DIR", os.path.join(VERIF, "replays"))
        os.makedirs(rdir, exist_ok=True)
        for old in os.listdir(rdir):          # replays of an earlier run of this check are stale
            if old.startswith(self.pid + "-") and old.endswith(".json"):
                os.remove(os.path.join(rdir, old))
        seen = {}
        for sig, desc, rep in new:
            seen.setdefault(sig, []).append((desc, rep))
        n = 0
        for sig, items in sorted(seen.items()):
            n += 1
            if n > 120:
                break
            path = os.path.join(rdir, "%s-%d.json" % (self.pid, n))
            with open(path, "w") as fh:
                json.dump({"property": self.pid, "signature": sig, "tier": self.tier, "seed": self.seed,
                           "cases": [{"description": d, "replay": r} for d, r in items[:5]], "count": len(items)}, fh, indent=1, default=str)
            print("VIOLATION property=%s replay=%s signature=%s cases=%d :: %s" % (self.pid, path, sig, len(items), items[0][0][:300]), flush=True)
            rc = 1
        self.extra["new_violation_signatures"] = {sig: len(items) for sig, items in sorted(seen.items())}
        cov = dict(self.extra)
        cov.update({
            "states": int(self.states), "transitions": int(self.transitions),
            "traces_validated_against_impl": int(self.traces),
            "evaluations": int(self.evaluations), "distinct_nontrivial": int(self.nontrivial),
            "rule": self.rule, "samples": self.samples[:8] or ["(none)"],
            "known_findings_seen": sorted(known.keys()),
            "known_finding_cases": {k: _count([sig for sig, _ in items]) for k, items in sorted(known.items())},
            "known_finding_examples": {k: items[0][1][:1200] for k, items in sorted(known.items())},
            "notes": self.notes[:50],
        })
        if self.exhaustive is not None:
            cov["exhaustive"] = bool(self.exhaustive)
        ev = {"property_id": self.pid, "tier": self.tier, "seed": int(self.seed), "level": self.level,
              "coverage": cov, "assumptions": self.assumptions, "wall_s": round(wall, 2),
              "violations": len(seen)}
        edir = os.environ.get("VERIF_EVIDENCE_DIR", os.path.join(VERIF, "evidence"))
        os.makedirs(edir, exist_ok=True)
        with open(os.path.join(edir, self.pid + ".json"), "w") as fh:
            json.dump(ev, fh, indent=1, default=str)
        print("RESULT property=%s tier=%s seed=%s states=%d transitions=%d traces=%d evaluations=%d nontrivial=%d known=%d new=%d wall=%.1fs"
              % (self.pid, self.tier, self.seed, self.states, self.transitions, self.traces, self.evaluations,
                 self.nontrivial, len(known), len(seen), wall), flush=True)
        return rc


def _count(sigs, top=40):
    c = {}
    for x in sigs:
        c[x] = c.get(x, 0) + 1
    return dict(sorted(c.items(), key=lambda kv: -kv[1])[:top])


def load_known():
    p = os.path.join(VERIF, "known_findings.json")
    if os.path.exists(p):
        return json.load(open(p))
    return {"findings": [], "fixed": []}


def match_known(sig, known_sigs):
    """exact match, or a listed signature ending in '*' used as a prefix (class signature)."""
    if sig in known_sigs:
        return sig
    for k in known_sigs:
        if k.endswith("*") and sig.startswith(k[:-1]):
            return k
    return None


def shard_lines(path, n, prefix):
    """split an ndjson file into n shard files (round-robin by line); returns non-empty shard paths."""
    outs = [open("%s.%02d.ndjson" % (prefix, i), "w") for i in range(n)]
    cnt = [0] * n
    with open(path) as fh:
        for i, line in enumerate(fh):
            outs[i % n].write(line)
            cnt[i % n] += 1
    for o in outs:
        o.close()
    return ["%s.%02d.ndjson" % (prefix, i) for i in range(n) if cnt[i] > 0]


def shard_groups(path, n, prefix, key="t"):
    """split an ndjson trace into n shards keeping all events of one trace id (field `key`) together
    and in order; traces are assigned to shards in contiguous blocks."""
    outs = ["%s.%02d.ndjson" % (prefix, i) for i in range(n)]
    fhs = [open(o, "w") for o in outs]
    cnt = [0] * n
    cur, idx, groups = None, -1, 0
    pat = re.compile(r'"%s":\s*(\d+)' % key)
    with open(path) as fh:
        for line in fh:
            m = pat.search(line)
            g = m.group(1) if m else None
            if g != cur:
                cur = g
                groups += 1
                idx = (idx + 1) % n
            fhs[idx].write(line)
            cnt[idx] += 1
    for f in fhs:
        f.close()
    return [o for o, c in zip(outs, cnt) if c > 0]


def count_lines(path):
    n = 0
    with open(path, "rb") as fh:
        for _ in fh:
            n += 1
    return n


def replay_file(pid, path):
    """--replay <file written next to a VIOLATION line>: prints the recorded cases and re-executes those whose
    engine has a single-case entry point (vh wrap replay / seg replay / fault one) on the current tree.
    Exit 1 when the file describes a violation of this property (it always does), 2 when unreadable."""
    import shlex
    try:
        doc = json.load(open(path))
    except Exception as e:
        print("UNDECIDED property=%s: cannot read replay file %s: %s" % (pid, path, e))
        return 2
    print("REPLAY property=%s signature=%s tier=%s seed=%s cases=%s" % (doc.get("property"), doc.get("signature"), doc.get("tier"), doc.get("seed"), doc.get("count")))
    c = None
    for case in doc.get("cases", []):
        print("CASE " + str(case.get("description"))[:2000])
        rep = case.get("replay") or {}
        cmd = rep.get("replay_cmd") if isinstance(rep, dict) else None
        if cmd and cmd.startswith("vh "):
            if c is None:
                c = Check(pid, "quick", int(doc.get("seed") or 1))
                c.build_vh()
            try:
                args = shlex.split(cmd)[1:]
                p = c.vh(args, check=False, timeout=300)
                print("RERUN " + cmd[:300])
                print((p.stdout or "")[-3000:])
            except Exception as e:   # a re-execution problem is not a verdict
                print("RERUN failed: %s" % e)
        elif isinstance(rep, dict):
            print("DATA " + json.dumps(rep)[:2000])
    print("VIOLATION property=%s replay=%s (recorded case, see above)" % (pid, path))
    return 1


def main_wrapper(pid, fn, level="model_checking"):
    import argparse
    ap = argparse.ArgumentParser()
    ap.add_argument("--tier", default=os.environ.get("VERIF_TIER", "quick"))
    ap.add_argument("--seed", type=int, default=int(os.environ.get("VERIF_SEED", "1") or 1))
    ap.add_argument("--replay", default=None)
    a = ap.parse_args(sys.argv[2:])
    if a.tier not in ("quick", "thorough"):
        a.tier = "quick"
    if a.replay:
        sys.exit(replay_file(pid, a.replay))
    c = Check(pid, a.tier, a.seed, level=level)
    try:
        fn(c, a)
        rc = c.finish()
    except Undecided as e:
        print("UNDECIDED property=%s: %s" % (pid, e), flush=True)
        rc = 2
    sys.exit(rc)
