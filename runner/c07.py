"""C07 — itemisation partitions the text into uniform runs (flow V)."""
import json
import os

from .common import NCPU


def run(c, a):
    c.build_vh()
    thorough = c.tier == "thorough"
    c.rule = ("input = text x sub-range x direction (LTR, RTL, TTB, BTT, fixed sideways/upright) x language x table-driven font map (with/without SetScript) x features; "
              "texts: every string up to length L over a 12-class alphabet (Latin, Hebrew, Arabic, digit, space, brackets, CJK, combining mark, ZWJ, Cyrillic), whole range and a seeded sub-range, "
              "plus random strings up to 14 runes over 31 runes incl. explicit bidi controls, newlines and quotes; every call on a re-used Segmenter (history = all earlier calls of the shard) and on a fresh one; "
              "non-trivial = output has >= 2 runs; distinct = distinct (text, range, direction, language, font map)")
    c.assumptions = ["per-rune bidi level parity is a fact from golang.org/x/text/unicode/bidi run on the same sub-range (a dependency, not the code under test); strings for which it gives no ordering are not judged for BidiUniform",
                     "script / orientation / default-ignorable facts come from the library's exported lookups (C20 checks their tables)",
                     "'matched brackets follow their context' is judged only through ScriptUniform (strong runes); no separate bracket predicate"]
    prefix = os.path.join(c.scratch, "it")
    out = json.loads(c.vh(["itemize", "run", 4 if thorough else 3, 200000 if thorough else 20000, prefix, NCPU], timeout=7200).stdout)
    c.extra["generated"] = out
    traces = [t for t in ["%s.%02d.ndjson" % (prefix, i) for i in range(NCPU)] if os.path.exists(t) and os.path.getsize(t) > 0]
    res = c.validate("ItemizeV", traces, timeout=7200, heap="4g")
    for tp, rj, r in res:
        c.evaluations += rj["n"]
        c.traces += rj["n"]
        c.nontrivial += rj["nontrivial"]
        if rj["fails"]:
            lines = open(tp).read().split("\n")
            for f in rj["fails"]:
                ev = json.loads(lines[f["line"] - 1])
                i = ev["i"]
                c.fail("pred=%s vert=%s oset=%s usescript=%s" % (f["pred"], i["vert"], i["oset"], i["usescript"]),
                       "text=%s range=[%d,%d) prog=%s lang=%r runs=%s" % ([hex(x) for x in i["text"]], i["start"], i["end"], i["prog"], i["lang"],
                                                                       [(r["start"], r["end"], r["prog"], r["script"], r["face"], r["lang"]) for r in ev["runs"]]),
                       {"engine": "itemize", "input": i})
    c.exhaustive = False
    c.samples = [json.loads(l) for l in open(traces[0]).read().split("\n")[:2] if l]
