"""C10 (partial) — decoded TrueType outlines, extents, advances and upem match an independent decoder written in TLA+."""
import json
import os

from .common import NCPU


def run(c, a):
    c.build_vh()
    thorough = c.tier == "thorough"
    c.rule = ("glyph = (TrueType corpus font with glyf/loca/hmtx, glyph id): all glyphs of small fonts, a seeded sample otherwise; the raw glyph record is decoded by Glyf.tla "
              "(flags with repeats, short/same coordinate deltas, implied mid-points) and compared with GlyphData (per contour, up to rotation of the start point), GlyphExtents, HorizontalAdvance (numberOfHMetrics tail rule) and Upem; "
              "composite glyphs whose components are simple glyphs placed by x/y offsets without scaling are decoded too (Components, translation, USE_MY_METRICS shift) and compared contour by contour; "
              "character-to-glyph mapping: the raw cmap table of every face (quick: 400 corpus files, thorough: all) is decoded by CmapBytes.tla (encoding records, choice of the Unicode subtable, formats 4/6/10/12/13) "
              "and compared with NominalGlyph over all 0x110000 code points; "
              "normalized coordinates: for every variable corpus face, design coordinate vectors (min, default, max, outside the range, mid-points, seeded random multiples of 1/64) are normalized by Avar.tla "
              "(fvar clamp and scaling, avar segment maps) and compared with Font.NormalizeVariations (one unit of 2.14 of rounding slack per stage); "
              "non-trivial = judged glyph with >= 1 contour / face whose mapping has >= 2 run-length segments; distinct = distinct (font, glyph) / faces")
    c.assumptions = ["PARTIAL: TrueType simple glyphs and translation-only composites of simple glyphs at default coordinates; CFF/CFF2 charstrings, scaled / point-anchored / nested composites, variation deltas (gvar / HVAR / MVAR), axes whose fvar values are not multiples of 1/64, symbol / Macintosh-encoded cmaps and cmap formats 0/2/14 are not covered (no reference decoder is available offline; DESIGN §6)",
                     "raw table bytes are read through opentype.Loader.RawTable (C19/C09 cover it) and sliced with loca by the harness",
                     "the x bearing may be xMin or the hmtx left side bearing (rasterizer convention followed by the reference shaper)"]
    prefix = os.path.join(c.scratch, "gl")
    out = json.loads(c.vh(["glyf", "corpus", 0, 400 if thorough else 30, prefix, NCPU], timeout=7200).stdout)
    c.extra["generated"] = out
    traces = [t for t in ["%s.%02d.ndjson" % (prefix, i) for i in range(NCPU)] if os.path.exists(t) and os.path.getsize(t) > 0]
    res = c.validate("GlyfV", traces, timeout=7200, heap="4g")
    for tp, rj, r in res:
        st = rj["stats"]
        c.evaluations += st["n"]
        c.traces += st["n"]
        c.nontrivial += st["nontriv"]
        c.extra["composites_judged"] = c.extra.get("composites_judged", 0) + st["composites"]
        if rj["fails"]:
            lines = open(tp).read().split("\n")
            for f in rj["fails"]:
                ev = json.loads(lines[f["line"] - 1])
                if f["pred"] == "HarnessParts":
                    from .common import Undecided
                    raise Undecided("harness fetched other component records than the specification decodes: %s gid %s" % (ev["font"], ev["gid"]))
                c.fail("pred=%s font=%s" % (f["pred"], ev["font"]), "gid=%d ext=%s adv=%s nhm=%s advgid=%s advlast=%s glyf=%s" % (ev["gid"], ev["ext"], ev["adv"], ev["nhm"], ev["advgid"], ev["advlast"], ev["glyf"][:40]),
                       {"engine": "glyf", "font": ev["font"], "gid": ev["gid"]})
    # ---- M: the decoder's own binary search is the linear "first segment whose end >= code" (all ascending lists of <= N segments)
    cfgp = os.path.join(c.specdir, "CmapBytesMC.cfg")
    cfgtext = open(cfgp).read().replace("N = 3", "N = %d" % (4 if thorough else 3))
    open(cfgp, "w").write(cfgtext)
    g = c.tlc("CmapBytesMC", cfg="CmapBytesMC.cfg", workers=NCPU, timeout=3600, heap="4g")
    if g.rc != 0 or g.error:
        from .common import Undecided
        raise Undecided("CmapBytesMC: the decoder's search is not the linear definition (specification error):\n" + g.out[-1500:])
    c.states += g.distinct
    c.transitions += g.generated
    c.extra["cmap_decoder_model_states"] = g.distinct
    # ---- character-to-glyph mapping: the raw cmap table decoded by CmapBytes.tla vs NominalGlyph over all code points
    prefix = os.path.join(c.scratch, "cb")
    out = json.loads(c.vh(["cmapbytes", "corpus", 0 if thorough else 400, 400000, prefix, NCPU], timeout=7200).stdout)
    c.extra["cmap_generated"] = out
    ctraces = [t for t in ["%s.%02d.ndjson" % (prefix, i) for i in range(NCPU)] if os.path.exists(t) and os.path.getsize(t) > 0]
    cst = {}
    mutant_src = None
    for tp, rj, r in c.validate("CmapBytesV", ctraces, timeout=7200, heap="4g"):
        st = rj["stats"]
        for k, v in st.items():
            cst[k] = cst.get(k, 0) + v
        c.evaluations += st["judged"]
        c.traces += st["n"]
        c.nontrivial += st["nontriv"]
        lines = open(tp).read().split("\n")
        for f in rj["fails"]:
            ev = json.loads(lines[f["line"] - 1])
            c.fail("pred=CmapDecode font=%s" % ev["font"], "format=%s first mismatching code point U+%04X (%d probes disagree) look=%s" % (f["format"], f["at"], f["n"], str(ev["look"])[:160]),
                   {"engine": "cmapbytes", "font": ev["font"], "at": f["at"]})
        if mutant_src is None and not rj["fails"]:
            for l in lines:
                if l and len(l) < 200000:
                    ev = json.loads(l)
                    if len(ev["look"]) >= 3:
                        mutant_src = ev
                        break
    c.extra["cmap_stats"] = cst
    # binding / vacuity guard: corrupt one recorded field (one glyph of the library's answer, then one word of the table) -> the monitor must reject
    if mutant_src is None:
        from .common import Undecided
        raise Undecided("no judged cmap event to derive the sensitivity test from")
    m1 = json.loads(json.dumps(mutant_src))
    m1["look"][1][2] += 1
    m2 = json.loads(json.dumps(mutant_src))
    m2["look"][1][1] += 1 if m2["look"][1][1] + 1 < m2["look"][2][0] else 0
    m2["look"][1][0] -= 1 if m2["look"][1][0] - 1 > m2["look"][0][1] else 0
    mt = os.path.join(c.scratch, "cb_mutant.ndjson")
    open(mt, "w").write(json.dumps(m1) + "\n" + json.dumps(m2) + "\n" + json.dumps(mutant_src) + "\n")
    for tp, rj, r in c.validate("CmapBytesV", [mt], timeout=600, heap="2g"):
        bad = sorted(f["line"] for f in rj["fails"])
        want = [1] if m2 == mutant_src else [1, 2]
        if bad != want:
            from .common import Undecided
            raise Undecided("CmapBytesV sensitivity test: corrupted events %s expected to be rejected, got %s" % (want, bad))
        c.extra["cmap_sensitivity"] = "corrupted glyph / widened range rejected (lines %s), original accepted" % bad
    # ---- normalized coordinates of variable fonts: fvar / avar decoded by Avar.tla vs Font.NormalizeVariations
    prefix = os.path.join(c.scratch, "av")
    out = json.loads(c.vh(["avar", "corpus", 40 if thorough else 8, prefix, NCPU], timeout=7200).stdout)
    c.extra["avar_generated"] = out
    atraces = [t for t in ["%s.%02d.ndjson" % (prefix, i) for i in range(NCPU)] if os.path.exists(t) and os.path.getsize(t) > 0]
    ast = {}
    asrc = None
    for tp, rj, r in c.validate("AvarV", atraces, timeout=7200, heap="2g"):
        for k, v in rj["stats"].items():
            ast[k] = ast.get(k, 0) + v
        c.evaluations += rj["stats"]["axes"]
        c.traces += rj["stats"]["n"]
        c.nontrivial += rj["stats"]["nontriv"]
        lines = open(tp).read().split("\n")
        for f in rj["fails"]:
            ev = json.loads(lines[f["line"] - 1])
            c.fail("pred=Normalized font=%s" % ev["font"], "axis=%s v(1/64)=%s got=%s p=%s" % (f["axis"], ev["v"], ev["got"], ev["p"]), {"engine": "avar", "font": ev["font"], "v": ev["v"]})
        if asrc is None and not rj["fails"]:
            for l in lines:
                if l:
                    ev = json.loads(l)
                    if ev["got"] and ev["got"][0] not in (0, 16384, -16384) and len(ev["avar"]) > 8:
                        asrc = ev
                        break
    c.extra["avar_stats"] = ast
    if asrc is None:
        from .common import Undecided
        raise Undecided("no judged avar event to derive the sensitivity test from")
    m1 = json.loads(json.dumps(asrc))
    m1["got"][0] += 3
    m2 = json.loads(json.dumps(asrc))
    m2["got"][0] = -m2["got"][0]
    mt = os.path.join(c.scratch, "av_mutant.ndjson")
    open(mt, "w").write(json.dumps(m1) + "\n" + json.dumps(m2) + "\n" + json.dumps(asrc) + "\n")
    for tp, rj, r in c.validate("AvarV", [mt], timeout=600, heap="2g"):
        bad = sorted(set(f["line"] for f in rj["fails"]))
        if bad != [1, 2]:
            from .common import Undecided
            raise Undecided("AvarV sensitivity test: corrupted events [1, 2] expected to be rejected, got %s" % bad)
        c.extra["avar_sensitivity"] = "shifted / negated normalized coordinate rejected, original accepted"
    c.exhaustive = False
    for l in open(traces[0]).read().split("\n")[:60]:
        if l and '"segs":[[' in l and len(c.samples) < 2:
            e = json.loads(l)
            e["glyf"] = e["glyf"][:60]
            e["head"] = e["head"][:20]
            c.samples.append(e)
    if not c.samples:
        c.samples = [json.loads(open(traces[0]).readline())]
