"""C10 (partial) — decoded TrueType outlines, extents, advances and upem match an independent decoder written in TLA+."""
import json
import os

from .common import NCPU


def run(c, a):
    c.build_vh()
    thorough = c.tier == "thorough"
    c.rule = ("glyph = (TrueType corpus font with glyf/loca/hmtx, glyph id): all glyphs of small fonts, a seeded sample otherwise; the raw glyph record is decoded by Glyf.tla "
              "(flags with repeats, short/same coordinate deltas, implied mid-points) and compared with GlyphData (per contour, up to rotation of the start point), GlyphExtents, HorizontalAdvance (numberOfHMetrics tail rule) and Upem; "
              "composite glyphs whose components are simple glyphs placed by x/y offsets without scaling are decoded too (Components, translation, USE_MY_METRICS shift) and compared contour by contour; "
              "non-trivial = judged glyph with >= 1 contour; distinct = distinct (font, glyph)")
    c.assumptions = ["PARTIAL: TrueType simple glyphs and translation-only composites of simple glyphs at default coordinates; CFF/CFF2 charstrings, scaled / point-anchored / nested composites, variation instances and cmap decoding are not covered (no reference decoder is available offline; DESIGN §6)",
                     "raw table bytes are read through opentype.Loader.RawTable (C19/C09 cover it) and sliced with loca by the harness",
                     "the x bearing may be xMin or the hmtx left side bearing (rasterizer convention followed by the reference shaper)"]
    prefix = os.path.join(c.scratch, "gl")
    out = json.loads(c.vh(["glyf", "corpus", 0, 400 if thorough else 30, prefix, NCPU], timeout=7200).stdout)
    c.extra["generated"] = out
    traces = [t for t in ["%s.%02d.ndjson" % (prefix, i) for i in range(NCPU)] if os.path.exists(t) and os.path.getsize(t) > 0]
    res = c.validate("GlyfV", traces, timeout=7200, heap="4g")
    for tp, rj, r in res:
        st = rj["stats"]
        c.evaluations += st["n"]
        c.traces += st["n"]
        c.nontrivial += st["nontriv"]
        c.extra["composites_judged"] = c.extra.get("composites_judged", 0) + st["composites"]
        if rj["fails"]:
            lines = open(tp).read().split("\n")
            for f in rj["fails"]:
                ev = json.loads(lines[f["line"] - 1])
                if f["pred"] == "HarnessParts":
                    from .common import Undecided
                    raise Undecided("harness fetched other component records than the specification decodes: %s gid %s" % (ev["font"], ev["gid"]))
                c.fail("pred=%s font=%s" % (f["pred"], ev["font"]), "gid=%d ext=%s adv=%s nhm=%s advgid=%s advlast=%s glyf=%s" % (ev["gid"], ev["ext"], ev["adv"], ev["nhm"], ev["advgid"], ev["advlast"], ev["glyf"][:40]),
                       {"engine": "glyf", "font": ev["font"], "gid": ev["gid"]})
    c.exhaustive = False
    for l in open(traces[0]).read().split("\n")[:60]:
        if l and '"segs":[[' in l and len(c.samples) < 2:
            e = json.loads(l)
            e["glyf"] = e["glyf"][:60]
            e["head"] = e["head"][:20]
            c.samples.append(e)
    if not c.samples:
        c.samples = [json.loads(open(traces[0]).readline())]
