"""C14 — font resolution is total, cache-transparent, documented priority (flows M, G, R, V)."""
import json
import os
import re

from .common import NCPU, Undecided


def extract_histories(tlc_out, path):
    n = 0
    with open(path, "w") as fh:
        for line in tlc_out.split("\n"):
            if line.startswith('"H|'):
                s = line[3:-1].replace('\\"', '"').replace("\\\\", "\\")
                fh.write(s + "\n")
                n += 1
    return n


def run(c, a):
    c.build_vh()
    thorough = c.tier == "thorough"
    c.rule = ("history = sequence of AddFace/SetQuery/SetScript/SetRuneCacheSize/ResolveFace; (G) every history up to length D over a small op alphabet enumerated by TLC "
              "(FontMapGen.tla) and executed on the real FontMap, (G) substitution histories (FontMapGenSubs.tla: a font named like a substitute, queries naming the substituted or a generic family, every tail of SetScript/Resolve), (V) seeded random histories of 25 steps over 3 (+3 substitute) families x 5 aspects x 6 runes x 5 scripts x cache sizes 0/1/2/4096, a third of them with generic / substituted query families; "
              "non-trivial = a ResolveFace of a rune already resolved earlier in the history after a database/query/script change; distinct = distinct histories")
    c.assumptions = ["the documented priority (FontMap.tla) is judged when the substitution-expanded family list of the query adds no family of the map (fact read through a verif export); histories with generic / substituted families are judged for totality, history independence (FreshEq, Functional) and non-nil only",
                     "footprint coverage (runes, scripts) is taken as the intended rune set of each synthetic font (C11 checks coverage exactness)",
                     "all fonts are added through AddFace (user provided); system font index paths are covered by C16"]
    # M: implementation model (lazy candidates + LRU) refines the property spec
    cfg = os.path.join(c.specdir, "FontMapImpl.cfg")
    s = open(cfg).read().replace("D = 5", "D = %d" % (7 if thorough else 6))
    open(cfg, "w").write(s)
    r = c.tlc_ok("FontMapImpl", cfg="FontMapImpl.cfg", workers=NCPU, timeout=3600, heap="8g")
    c.extra["impl_model_states"] = r.distinct
    # G: TLC-generated exhaustive histories
    cfg = os.path.join(c.specdir, "FontMapGen.cfg")
    s = open(cfg).read().replace("D = 3", "D = %d" % (5 if thorough else 4))
    open(cfg, "w").write(s)
    g = c.tlc("FontMapGen", cfg="FontMapGen.cfg", workers=NCPU, timeout=3600, heap="8g")
    if g.rc != 0 or g.error:
        raise Undecided("history generation failed:\n" + g.out[-2000:])
    c.states += g.distinct
    c.transitions += g.generated
    hp = os.path.join(c.scratch, "hist.ndjson")
    nh = extract_histories(g.out, hp)
    if nh == 0:
        raise Undecided("TLC generated no history")
    shards = NCPU * (4 if thorough else 1)
    prefix = os.path.join(c.scratch, "fm_gen")
    out = json.loads(c.vh(["fm", "exec", hp, prefix, shards], timeout=7200).stdout)
    traces = ["%s.%02d.ndjson" % (prefix, i) for i in range(shards)]
    # G: substitution histories (fonts named like substitutes, queries with substituted / generic families)
    cfg = os.path.join(c.specdir, "FontMapGenSubs.cfg")
    gs = c.tlc("FontMapGenSubs", cfg="FontMapGenSubs.cfg", workers=1 if not thorough else NCPU, timeout=3600, heap="6g",
               simulate=None if thorough else "num=4000", depth=None if thorough else 8, extra=None if thorough else ["-seed", str(c.seed)])
    hp2 = os.path.join(c.scratch, "hist_subs.ndjson")
    nh2 = extract_histories(gs.out, hp2)
    if nh2 == 0:
        raise Undecided("TLC generated no substitution history:\n" + gs.out[-1500:])
    prefix = os.path.join(c.scratch, "fm_subs")
    out3 = json.loads(c.vh(["fm", "exec", hp2, prefix, NCPU], timeout=7200).stdout)
    traces += ["%s.%02d.ndjson" % (prefix, i) for i in range(NCPU)]
    # G: every ordered pair of queries over a concatenation-closed name alphabet (cache-key separation)
    gp = c.tlc("FontMapGenPairs", cfg="FontMapGenPairs.cfg", workers=NCPU, timeout=3600, heap="6g")
    hp3 = os.path.join(c.scratch, "hist_pairs.ndjson")
    nh3 = extract_histories(gp.out, hp3)
    if gp.rc != 0 or gp.error or nh3 == 0:
        raise Undecided("TLC generated no query-pair history:\n" + gp.out[-1500:])
    c.states += gp.distinct
    c.transitions += gp.generated
    prefix = os.path.join(c.scratch, "fm_pairs")
    out4 = json.loads(c.vh(["fm", "exec", hp3, prefix, NCPU], timeout=7200).stdout)
    traces += ["%s.%02d.ndjson" % (prefix, i) for i in range(NCPU)]
    prefix = os.path.join(c.scratch, "fm_rand")
    out2 = json.loads(c.vh(["fm", "rand", 40000 if thorough else 3000, 25, prefix, NCPU]).stdout)
    traces += ["%s.%02d.ndjson" % (prefix, i) for i in range(NCPU)]
    c.extra["generated"] = {"tlc_histories": out["histories"], "tlc_substitution_histories": out3["histories"], "random_histories": out2["histories"], "tlc_query_pair_histories": out4["histories"]}
    traces = [t for t in traces if os.path.exists(t) and os.path.getsize(t) > 0]
    res = c.validate("FontMapV", traces, timeout=7200, heap="4g")
    for tp, rj, r in res:
        st = rj["stats"]
        c.evaluations += st["resolves"]
        c.traces += st["hist"]
        c.nontrivial += st["nontriv"]
        if rj["fails"]:
            lines = open(tp).read().split("\n")
            for f in rj["fails"]:
                i = f["line"] - 1
                j = i
                while json.loads(lines[j])["ev"] != "New":
                    j -= 1
                hist = [json.loads(x) for x in lines[j + 1:i + 1]]
                ops = [h["ev"] for h in hist]
                last_change = next((o for o in reversed(ops[:-1]) if o != "Resolve"), "none")
                c.fail("pred=%s after=%s" % (f["pred"], last_change), "history=%s" % json.dumps(hist)[:1500], {"engine": "fm", "history": hist})
    c.exhaustive = True
    c.samples = [json.loads(l) for l in open(traces[0]).read().split("\n")[:6] if l]
