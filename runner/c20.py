"""C20 — Unicode and language lookups are coherent total functions (flows M, V)."""
import json
import os

from .common import NCPU


def run(c, a):
    c.build_vh()
    c.rule = ("one event per law instance: 256 Direction values x 5 setter calls; 7 classification families (line/grapheme/word break, combining class, general category, script, script range list) "
              "each with its complete tables and the lookup result over all 0x110000 code points; the mirroring map; every decomposable code point (incl. all Hangul syllables) and every composable pair; "
              "every language identifier; every tag string over {a,B,_,-,1,e-acute,x} up to length 4 plus random longer ones; table tags with region/variant suffixes. "
              "non-trivial = every event (each is a distinct law instance over complete data)")
    c.assumptions = ["composition exclusions are taken from golang.org/x/text/unicode/norm (excluded(ab) iff NFC(NFD(ab)) # ab), a dependency of the repository, not the code under test",
                     "range tables are flattened by the harness (strides expanded) in the table's own order; merged lists are checked by the spec to be faithful merges"]
    # M: the Direction action system and the bisection law
    r = c.tlc_ok("Direction", cfg="DirectionMC.cfg", workers=4, timeout=600)
    c.extra["direction_model_states"] = r.distinct
    r = c.tlc_ok("TablesMC", cfg="TablesMC.cfg", workers=NCPU, timeout=1200)
    c.extra["bisection_model_states"] = r.distinct
    tp = os.path.join(c.scratch, "ucd.ndjson")
    c.extra["generated"] = json.loads(c.vh(["ucd", "all", tp]).stdout)
    # shard by lines so that the heavy family events are spread
    from .common import shard_lines
    shards = shard_lines(tp, 8, os.path.join(c.scratch, "ucd_s"))
    res = c.validate("UcdV", shards, timeout=3600, heap="6g")
    for sp, rj, r in res:
        c.evaluations += rj["n"]
        c.traces += rj["n"]
        c.nontrivial += rj["nontrivial"]
        if rj["fails"]:
            lines = open(sp).read().split("\n")
            for f in rj["fails"]:
                ev = json.loads(lines[f["line"] - 1])
                detail = ""
                if ev["k"] == "langid":
                    detail = " tag=%s" % ev["tag"]
                elif ev["k"] == "dir":
                    detail = " op=%s" % ev["op"]
                elif ev["k"] == "lang":
                    detail = " len=%d" % len(ev["s"])
                small = {k: (v if not isinstance(v, list) or len(v) < 20 else "<%d items>" % len(v)) for k, v in ev.items()}
                c.fail("pred=%s%s" % (f["pred"], detail), json.dumps(small)[:600], {"engine": "ucd", "event": small})
    c.exhaustive = True
    with open(tp) as fh:
        for i, line in enumerate(fh):
            if i in (0, 700, 1290):
                e = json.loads(line)
                c.samples.append({k: (v if not isinstance(v, list) or len(v) < 12 else v[:4] + ["..."]) for k, v in e.items()})
