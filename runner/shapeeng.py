"""Shared shaping engine (C01, C12): Go driver `vh shape` -> ndjson -> ShapeV.tla monitor."""
import json
import os

from .common import NCPU

PREDS = {
    "C01": {"Returned", "Range", "InRange", "Monotone", "ClusterUniform", "CountsSum", "Budget", "PosSync", "StartCovered"},
    "C12": {"AdvSum", "CrossZero", "BoundsEnclose", "BoundsTight", "LineBounds", "Rotation", "WordSpacing", "LetterSpacing", "SpacingAdvSum"},
}


def run_engine(c, pid):
    c.build_vh()
    thorough = c.tier == "thorough"
    mine = PREDS[pid]
    c.rule = ("call = (corpus face, text from a fixed multi-script list or drawn from the face's own cmap, run bounds incl. sub-runs / swapped / out-of-range / empty, "
              "7 directions incl. vertical upright and sideways, 9 script tags, languages, 5 sizes incl. 1px, fractional and 4096px, feature lists), through shaping.HarfbuzzShaper (re-used per face) "
              "and, for C01, through harfbuzz.Buffer.Shape with Bot/Eot flags and the three cluster levels; for C12 also word/letter spacing on synthetic runs (all cluster partitions, 1-2 glyphs per cluster, "
              "both progressions and axes, spacing in {-4,-2,0,2,4 px, odd 26.6 value}, start/end flags); non-trivial = >= 2 clusters or a cluster with runeCount # glyphCount (C01), "
              "vertical or multi-glyph-cluster output / spacing event (C12); distinct = distinct call ids (face, text, dir, script, bounds)")
    c.assumptions = ["font extents for the run's axis at the run's scale are a fact obtained from a separately built harfbuzz.Font (LineBounds checks the plumbing, not the metrics themselves)",
                     "each call runs under recover() and a 20 s watchdog; a timeout is reported as a failed Returned law"]
    traces = []
    gen = {}
    prefix = os.path.join(c.scratch, "sh_corpus")
    gen["corpus"] = json.loads(c.vh(["shape", "corpus", 0 if thorough else 80, 8 if thorough else 2, prefix, NCPU], timeout=7200).stdout)
    traces += ["%s.%02d.ndjson" % (prefix, i) for i in range(NCPU)]
    if pid == "C01":
        prefix = os.path.join(c.scratch, "sh_hb")
        gen["hb"] = json.loads(c.vh(["shape", "hb", 0 if thorough else 100, prefix, NCPU], timeout=7200).stdout)
        traces += ["%s.%02d.ndjson" % (prefix, i) for i in range(NCPU)]
    else:
        prefix = os.path.join(c.scratch, "sh_sp")
        gen["spacing"] = json.loads(c.vh(["shape", "spacing", prefix, NCPU], timeout=7200).stdout)
        traces += ["%s.%02d.ndjson" % (prefix, i) for i in range(NCPU)]
    traces = [t for t in traces if os.path.exists(t) and os.path.getsize(t) > 0]
    c.extra["generated"] = gen
    res = c.validate("ShapeV", traces, timeout=7200, heap="4g")
    for tp, rj, r in res:
        st = rj["stats"]
        if pid == "C01":
            c.evaluations += st["calls"]
            c.nontrivial += st["nontriv"]
        else:
            c.evaluations += st["calls"] + st["sp"]
            c.nontrivial += st["geo"] + st["sp"]
        c.traces += st["calls"] + st["sp"]
        fl = [f for f in rj["fails"] if f["pred"] in mine]
        if fl:
            lines = open(tp).read().split("\n")
            for f in fl:
                ev = json.loads(lines[f["line"] - 1])
                if ev["ev"] == "SP":
                    sig = "pred=%s kind=%s vert=%s" % (f["pred"], ev["kind"], ev["vert"])
                    desc = json.dumps(ev)[:500]
                elif f["pred"] == "Returned":
                    sig = "pred=Returned api=%s res=%s site=%s" % (ev["api"], ev["res"], ev["site"].split(":")[0])
                    desc = "%s text=%s site=%s" % (ev["id"], [hex(x) for x in ev["text"]], ev["site"])
                else:
                    font = ev["id"].split(" ")[0]
                    sig = "pred=%s api=%s font=%s" % (f["pred"], ev["api"], font)
                    desc = "%s text=%s start=%s end=%s prog=%s side=%s glyphs=%s" % (ev["id"], [hex(x) for x in ev["text"]], ev["start"], ev["end"], ev["prog"], ev["side"], str(ev["g"])[:300])
                c.fail(sig, desc, {"engine": "shape", "event": {k: v for k, v in ev.items() if k not in ("g", "twin")}})
    c.exhaustive = False
    for l in open(traces[0]).read().split("\n")[:2]:
        if l:
            e = json.loads(l)
            e["g"] = e["g"][:4]
            e["twin"] = e.get("twin", [])[:2]
            c.samples.append(e)
