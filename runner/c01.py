"""C01 — shaping is total and accounts for every input rune (flows M, V)."""
from . import shapeeng
from .common import NCPU


def run(c, a):
    r = c.tlc_ok("CountClustersMC", cfg="CountClustersMC.cfg", workers=4, timeout=900)
    c.extra["countclusters_model_states"] = r.distinct
    shapeeng.run_engine(c, "C01")
    # the in/out buffer protocol keeps monotone clusters monotone (HBBuffer.tla: model-checked, then the
    # TLC-generated passes are replayed on the real harfbuzz.Buffer and judged there)
    from . import hbbufeng
    hbbufeng.run_engine(c, "C01")
