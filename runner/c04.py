"""C04 — see DESIGN.md §5; shared wrapping engine (runner/wrapeng.py, spec/Wrap.tla, spec/WrapV.tla).

Additionally (flow M, diagnostic): the implementation model spec/WrapImpl.tla (PlusCal transcription of
LineWrapper's state machine) is model-checked against the same predicates, and its three "repair switches"
are turned off in turn: TLC must then find the historical counterexamples (if it does not, the model or
the predicates have become vacuous and the check is undecided, never a violation)."""
import re

from . import wrapeng
from .common import Undecided, NCPU


def model(c):
    thorough = c.tier == "thorough"
    cfg = "WrapImpl.cfg"
    if thorough:
        src = open(c.specdir + "/WrapImpl.cfg").read().replace("MaxN = 3", "MaxN = 4")
        open(c.specdir + "/WrapImpl4.cfg", "w").write(src)
        cfg = "WrapImpl4.cfg"
    r = c.tlc_ok("WrapImpl", cfg=cfg, workers=NCPU, timeout=3000, heap="8g")
    c.extra["implementation_model"] = {"cfg": cfg, "distinct_states": r.distinct, "generated": r.generated,
                                       "invariants": ["InvSteps", "InvContig", "InvCover", "InvTruncCount", "InvMandatory", "InvNonEmpty", "InvLegalEnd", "InvFits", "InvGreedy"]}
    # the same model under letter spacing (leading half): lines start trimmed
    r2 = c.tlc_ok("WrapImpl", cfg="WrapImplLS.cfg", workers=NCPU, timeout=3000, heap="8g")
    c.extra["implementation_model"]["letter_spacing_distinct_states"] = r2.distinct
    sens = {}
    for name, want in (("WrapImplNoInv.cfg", "InvFits"), ("WrapImplNoTrunc.cfg", "InvLegalEnd"), ("WrapImplNoFirstRun.cfg", "InvGreedy")):
        rr = c.tlc("WrapImpl", cfg=name, workers=NCPU, timeout=1800, heap="8g")
        m = re.search(r"Invariant (\w+) is violated", rr.out)
        if not m:
            raise Undecided("WrapImpl with a repair switched off (%s) no longer violates any invariant: model or predicates vacuous" % name)
        sens[name] = m.group(1)
    c.extra["implementation_model"]["sensitivity"] = sens


def run(c, a):
    model(c)
    wrapeng.run_engine(c, "C04")
