package main

// Engine "cmapbytes" (C10, character-to-glyph mapping): for every face of the sampled corpus files,
// records the raw `cmap` table (as big-endian 16-bit words, read through the Loader) next to what the
// font package answers for every code point (NominalGlyph over all 0x110000 runes, run-length form).
// TLC decodes the table itself (CmapBytes.tla) and compares.

import (
	"bytes"
	"encoding/json"
	"fmt"
	"strconv"

	"github.com/go-text/typesetting/font"
	ot "github.com/go-text/typesetting/font/opentype"
)

type cmapBytesEvent struct {
	Font  string   `json:"font"`
	W     []int    `json:"w"`
	Look  [][4]int `json:"look"`
	Bytes int      `json:"bytes"`
}

func cmapBytesMain(args []string) error {
	// cmapbytes corpus <maxFiles> <maxWords> <prefix> <shards>
	if len(args) < 5 {
		return fmt.Errorf("cmapbytes: usage: cmapbytes corpus <maxFiles> <maxWords> <prefix> <shards>")
	}
	max, _ := strconv.Atoi(args[1])
	maxWords, _ := strconv.Atoi(args[2])
	shards, _ := strconv.Atoi(args[4])
	seed := seedFromEnv()
	sw := newShardWriter(args[3], shards)
	defer sw.close()
	var jobs []func(enc *json.Encoder)
	stats := map[string]int{}
	for _, cf := range sampleCorpus(max, seed+9) {
		lds, err := func() (lds []*ot.Loader, err error) {
			defer func() {
				if r := recover(); r != nil {
					err = fmt.Errorf("panic: %v", r)
				}
			}()
			return ot.NewLoaders(bytes.NewReader(cf.Data))
		}()
		if err != nil {
			stats["unreadable"]++
			continue
		}
		for fi, ld := range lds {
			raw, err := ld.RawTable(ot.MustNewTag("cmap"))
			if err != nil || len(raw) < 4 {
				stats["nocmap"]++
				continue
			}
			if (len(raw)+1)/2 > maxWords {
				stats["toolarge"]++
				continue
			}
			ft, err := func() (ft *font.Font, err error) {
				defer func() {
					if r := recover(); r != nil {
						err = fmt.Errorf("panic: %v", r)
					}
				}()
				return font.NewFont(ld)
			}()
			if err != nil {
				stats["rejected"]++
				continue
			}
			face := font.NewFace(ft)
			id := cf.ID
			if len(lds) > 1 {
				id = fmt.Sprintf("%s#%d", cf.ID, fi)
			}
			stats["faces"]++
			jobs = append(jobs, func(enc *json.Encoder) {
				ev := cmapBytesEvent{Font: id, Bytes: len(raw), Look: [][4]int{}}
				ev.W = make([]int, 0, (len(raw)+1)/2)
				for i := 0; i < len(raw); i += 2 {
					w := int(raw[i]) << 8
					if i+1 < len(raw) {
						w |= int(raw[i+1])
					}
					ev.W = append(ev.W, w)
				}
				look := make([]int32, maxRune+1)
				for r := rune(0); r <= maxRune; r++ {
					if g, ok := face.NominalGlyph(r); ok {
						look[r] = int32(g)
					} else {
						look[r] = -1
					}
				}
				ev.Look = funcSegments(look)
				enc.Encode(ev)
			})
		}
	}
	runJobs(sw, jobs)
	out, _ := json.Marshal(stats)
	fmt.Println(string(out))
	return nil
}

func init() { cmds["cmapbytes"] = cmapBytesMain }
