package main

// Engine "wrap" (C02, C03, C04, C08): drives shaping.LineWrapper on synthetic and real shaped
// runs and records, per paragraph, the scenario (P event) and every returned line (L events).
// All decisions are made by TLC (WrapV.tla / Wrap.tla / Bidi.tla).

import (
	"bytes"
	"encoding/json"
	"fmt"
	"math"
	"math/rand"
	"os"
	"sort"
	"strconv"
	"strings"

	tdh "github.com/go-text/typesetting-utils/harfbuzz"
	td "github.com/go-text/typesetting-utils/opentype"
	"github.com/go-text/typesetting/di"
	"github.com/go-text/typesetting/font"
	"github.com/go-text/typesetting/segmenter"
	"github.com/go-text/typesetting/shaping"
	"golang.org/x/image/math/fixed"
)

const truncGID = 0xFFF0

type wGlyph [6]int // cluster, advance (26.6), isSpace, gid, startLS, endLS

type wRun struct {
	Off int      `json:"off"`
	Cnt int      `json:"cnt"`
	Dir int      `json:"dir"`
	Lvl int      `json:"lvl"`
	G   []wGlyph `json:"g"`
}

type wCfg struct {
	Pdir   int  `json:"pdir"`
	Pol    int  `json:"pol"`
	Trunc  int  `json:"trunc"`
	Tadv   int  `json:"tadv"`
	Cont   bool `json:"cont"`
	Notrim bool `json:"notrim"`
	Tdir   int  `json:"tdir"` // direction of the truncator run
}

type wPrepare struct {
	Ev   string      `json:"ev"`
	Id   string      `json:"id"`
	N    int         `json:"n"`
	Text []int       `json:"text"`
	Runs []wRun      `json:"runs"`
	Wb   []int       `json:"wb"`
	Mb   []int       `json:"mb"`
	Gb   []int       `json:"gb"`
	Cfg  wCfg        `json:"cfg"`
	Api  string      `json:"api"`
	Cls  string      `json:"cls"`          // scenario class (wellformed, ls, bidi, real, ...)
	Rp   interface{} `json:"rp,omitempty"` // input of "vh wrap replay"
}

type wOutRun struct {
	Off int      `json:"off"`
	Cnt int      `json:"cnt"`
	Dir int      `json:"dir"`
	Adv int      `json:"adv"`
	Vi  int      `json:"vi"`
	Tr  bool     `json:"tr"`
	G   []wGlyph `json:"g"`
}

type wLine struct {
	Ev        string    `json:"ev"`
	Runs      []wOutRun `json:"runs"`
	Truncated int       `json:"truncated"`
	Next      int       `json:"next"`
	Done      bool      `json:"done"`
	W         int       `json:"w"`
}

type wAbnormal struct {
	Ev     string `json:"ev"`
	Reason string `json:"reason"`
}

func dirCode(d di.Direction) int {
	if d.Progression() == di.TowardTopLeft {
		return 1
	}
	return 0
}

func glyphRec(g *shaping.Glyph, vertical bool) wGlyph {
	ls, le := shaping.VerifLetterSpacing(g)
	adv := int(g.XAdvance)
	sp := 0
	if vertical {
		adv = int(g.YAdvance)
		if g.Height == 0 {
			sp = 1
		}
	} else if g.Width == 0 {
		sp = 1
	}
	return wGlyph{g.ClusterIndex, adv, sp, int(g.GlyphID), int(ls), int(le)}
}

func runRecs(runs []shaping.Output, lvls []int) []wRun {
	out := make([]wRun, len(runs))
	for i := range runs {
		r := &runs[i]
		out[i] = wRun{Off: r.Runes.Offset, Cnt: r.Runes.Count, Dir: dirCode(r.Direction), G: make([]wGlyph, len(r.Glyphs))}
		if lvls != nil {
			out[i].Lvl = lvls[i]
		}
		for j := range r.Glyphs {
			out[i].G[j] = glyphRec(&r.Glyphs[j], r.Direction.IsVertical())
		}
	}
	return out
}

func outRunRecs(line shaping.Line) []wOutRun {
	out := make([]wOutRun, len(line))
	for i := range line {
		r := &line[i]
		o := wOutRun{Off: r.Runes.Offset, Cnt: r.Runes.Count, Dir: dirCode(r.Direction), Adv: int(r.Advance), Vi: int(r.VisualIndex), G: make([]wGlyph, len(r.Glyphs))}
		for j := range r.Glyphs {
			o.G[j] = glyphRec(&r.Glyphs[j], r.Direction.IsVertical())
		}
		o.Tr = len(r.Glyphs) == 1 && r.Glyphs[0].GlyphID == truncGID
		out[i] = o
	}
	return out
}

// facts from the real segmenter: boundaries as positions e in 1..n
func segFacts(text []rune) (wb, mb, gb []int) {
	var seg segmenter.Segmenter
	seg.Init(text)
	wb, mb, gb = []int{}, []int{}, []int{}
	li := seg.LineIterator()
	for li.Next() {
		l := li.Line()
		e := l.Offset + len(l.Text)
		wb = append(wb, e)
		if l.IsMandatoryBreak && e != len(text) {
			mb = append(mb, e)
		}
	}
	gi := seg.GraphemeIterator()
	for gi.Next() {
		g := gi.Grapheme()
		gb = append(gb, g.Offset+len(g.Text))
	}
	return
}

type wrapScenario struct {
	id           string
	cls          string
	text         []rune
	build        func() []shaping.Output // fresh inputs (the wrapper writes into the glyph arrays)
	lvls         []int
	cfg          wCfg
	width        int
	api          string // para | next
	delta        int    // next api: width of odd lines = width + delta
	syn          *synth
	abandonAfter int // next api: stop calling WrapNextLine after this many lines (0 = run to the end)
}

func makeTruncator(pdir di.Direction, adv fixed.Int26_6) shaping.Output {
	t := shaping.Output{Glyphs: []shaping.Glyph{{XAdvance: adv, Width: adv, GlyphCount: 1, GlyphID: truncGID}}, Direction: pdir}
	t.RecomputeAdvance()
	return t
}

func toInts(rs []rune) []int {
	o := make([]int, len(rs))
	for i, r := range rs {
		o[i] = int(r)
	}
	return o
}

// runScenario executes one wrap call sequence on the real wrapper and writes P, L*, (X) events.
func runScenario(enc *json.Encoder, lw *shaping.LineWrapper, s wrapScenario) {
	runs := s.build()
	pdir := di.DirectionLTR
	if s.cfg.Pdir == 1 {
		pdir = di.DirectionRTL
	}
	wb, mb, gb := segFacts(s.text)
	p := wPrepare{Ev: "P", Id: s.id, N: len(s.text), Text: toInts(s.text), Runs: runRecs(runs, s.lvls), Wb: wb, Mb: mb, Gb: gb, Cfg: s.cfg, Api: s.api, Cls: s.cls}
	if s.syn != nil {
		p.Rp = map[string]interface{}{"text": toInts(s.syn.text), "clusters": s.syn.clusters, "runs": s.syn.runSplit, "dirs": s.syn.dirs, "lvls": s.lvls,
			"gp": s.syn.glyphsPer, "alt": s.syn.advAlt, "ls": s.syn.ls, "ws": s.syn.ws, "cfg": s.cfg, "w": s.width, "api": s.api, "delta": s.delta}
	}
	enc.Encode(p)
	tdir := di.DirectionLTR
	if s.cfg.Tdir == 1 {
		tdir = di.DirectionRTL
	}
	wc := shaping.WrapConfig{Direction: pdir, BreakPolicy: shaping.LineBreakPolicy(s.cfg.Pol), TruncateAfterLines: s.cfg.Trunc,
		TextContinues: s.cfg.Cont, DisableTrailingWhitespaceTrim: s.cfg.Notrim, Truncator: makeTruncator(tdir, fixed.Int26_6(s.cfg.Tadv))}
	var events []interface{}
	abnormal := ""
	func() {
		defer func() {
			if r := recover(); r != nil {
				abnormal = "panic: " + fmt.Sprint(r)
			}
		}()
		if s.api == "para" {
			lines, truncated := lw.WrapParagraph(wc, s.width, s.text, shaping.NewSliceIterator(runs))
			pos := 0
			for i, line := range lines {
				recs := outRunRecs(line)
				for _, r := range recs {
					if !r.Tr {
						pos = r.Off + r.Cnt
					}
				}
				last := i == len(lines)-1
				tr := 0
				if last {
					tr = truncated
				}
				events = append(events, wLine{Ev: "L", Runs: recs, Truncated: tr, Next: pos, Done: last, W: s.width})
			}
			if len(lines) == 0 && len(s.text) > 0 {
				abnormal = "no line returned"
			}
		} else {
			lw.Prepare(wc, s.text, shaping.NewSliceIterator(runs))
			type heldLine struct {
				wl   shaping.WrappedLine
				done bool
				w    int
			}
			var held []heldLine
			abandoned := false
			for i := 0; ; i++ {
				w := s.width
				if i%2 == 1 {
					w += s.delta
				}
				wl, done := lw.WrapNextLine(w)
				// a returned line stays valid until the next Prepare / WrapParagraph: the lines are kept and
				// read only after the last one has been returned
				held = append(held, heldLine{wl, done, w})
				if done {
					break
				}
				if s.abandonAfter > 0 && i+1 >= s.abandonAfter {
					// the caller loses interest in the rest of this paragraph (the wrapper is re-used afterwards)
					abandoned = true
					break
				}
				if i > 4*len(s.text)+8 {
					abnormal = "no termination"
					break
				}
			}
			for _, h := range held {
				events = append(events, wLine{Ev: "L", Runs: outRunRecs(h.wl.Line), Truncated: h.wl.Truncated, Next: h.wl.NextLine, Done: h.done, W: h.w})
			}
			if abandoned {
				events = append(events, map[string]interface{}{"ev": "A"})
			}
		}
	}()
	for _, e := range events {
		enc.Encode(e)
	}
	if abnormal != "" {
		enc.Encode(wAbnormal{Ev: "X", Reason: abnormal})
	}
}

// ------------------------------------------------------------------ synthetic scenarios

type synth struct {
	text      []rune
	clusters  []int // cluster starts
	runSplit  []int // run starts (subset of clusters)
	dirs      []int // 0 LTR 1 RTL
	glyphsPer int
	advAlt    bool // alternate advances 1,2 px per cluster
	ls        int  // letter spacing in px (0 = none), applied through the real AddSpacing
	ws        int  // word spacing px
}

func (s synth) key() string {
	return fmt.Sprintf("t=%x c=%v r=%v d=%v gp=%d alt=%v ls=%d ws=%d", s.text, s.clusters, s.runSplit, s.dirs, s.glyphsPer, s.advAlt, s.ls, s.ws)
}

func (s synth) build() []shaping.Output {
	n := len(s.text)
	var outs []shaping.Output
	for ri, rs := range s.runSplit {
		re := n
		if ri+1 < len(s.runSplit) {
			re = s.runSplit[ri+1]
		}
		dir := di.DirectionLTR
		if s.dirs[ri] == 1 {
			dir = di.DirectionRTL
		}
		var glyphs []shaping.Glyph
		var cl []int
		for _, c := range s.clusters {
			if c >= rs && c < re {
				cl = append(cl, c)
			}
		}
		for ci, c := range cl {
			ce := re
			if ci+1 < len(cl) {
				ce = cl[ci+1]
			}
			isSpace := ce-c == 1 && (s.text[c] == ' ' || s.text[c] == '\n')
			adv := fixed.I(1)
			if s.advAlt && c%2 == 1 {
				adv = fixed.I(2)
			}
			for k := 0; k < s.glyphsPer; k++ {
				g := shaping.Glyph{ClusterIndex: c, RuneCount: ce - c, GlyphCount: s.glyphsPer, XAdvance: adv, Width: adv, GlyphID: 1}
				if k > 0 {
					g.GlyphID = 2
				}
				if isSpace {
					g.Width = 0
				}
				glyphs = append(glyphs, g)
			}
		}
		if dir.Progression() == di.TowardTopLeft {
			for i, j := 0, len(glyphs)-1; i < j; i, j = i+1, j-1 {
				glyphs[i], glyphs[j] = glyphs[j], glyphs[i]
			}
		}
		o := shaping.Output{Glyphs: glyphs, Direction: dir, Runes: shaping.Range{Offset: rs, Count: re - rs}}
		o.RecomputeAdvance()
		outs = append(outs, o)
	}
	if s.ls != 0 || s.ws != 0 {
		shaping.AddSpacing(outs, s.text, fixed.I(s.ws), fixed.I(s.ls))
	}
	return outs
}

func (s synth) totalPx() int {
	t := 0
	for _, o := range s.build() {
		t += o.Advance.Ceil()
	}
	return t
}

var wrapAlphabet = []rune{'a', ' ', '\n', 0x0301, '-'}

func isBoundary(set []int, x int) bool {
	for _, v := range set {
		if v == x {
			return true
		}
	}
	return false
}

// enumSynth calls f for every synthetic shaped paragraph up to maxN runes.
// wellformed = cluster boundaries are grapheme boundaries (what a shaper produces).
// enumeration knobs (mode "words": deeper texts over a two-letter alphabet)
var (
	enumAlphabet = wrapAlphabet
	enumMinN     = 1
	enumGps      = []int{1, 2}
)

func enumSynth(maxN int, maxRuns int, variants bool, f func(s synth, wellformed bool)) {
	var texts [][]rune
	var gen func(cur []rune, n int)
	gen = func(cur []rune, n int) {
		if len(cur) == n {
			texts = append(texts, append([]rune(nil), cur...))
			return
		}
		for _, a := range enumAlphabet {
			gen(append(cur, a), n)
		}
	}
	for n := enumMinN; n <= maxN; n++ {
		gen(nil, n)
	}
	for _, text := range texts {
		n := len(text)
		_, _, gb := segFacts(text)
		for mask := 0; mask < 1<<(n-1); mask++ {
			clusters := []int{0}
			wf := true
			for i := 1; i < n; i++ {
				if mask&(1<<(i-1)) != 0 {
					clusters = append(clusters, i)
					if !isBoundary(gb, i) {
						wf = false
					}
				}
			}
			for _, gp := range enumGps {
				var splits [][]int
				splits = append(splits, []int{0})
				if maxRuns >= 2 {
					for _, c := range clusters[1:] {
						splits = append(splits, []int{0, c})
					}
				}
				if maxRuns >= 3 {
					for i := 1; i < len(clusters); i++ {
						for j := i + 1; j < len(clusters); j++ {
							splits = append(splits, []int{0, clusters[i], clusters[j]})
						}
					}
				}
				for _, sp := range splits {
					nd := 1 << len(sp)
					for dm := 0; dm < nd; dm++ {
						dirs := make([]int, len(sp))
						for i := range sp {
							dirs[i] = (dm >> i) & 1
						}
						alts := []bool{false}
						if variants {
							alts = []bool{false, true}
						}
						for _, alt := range alts {
							f(synth{text: text, clusters: clusters, runSplit: sp, dirs: dirs, glyphsPer: gp, advAlt: alt}, wf)
						}
					}
				}
			}
		}
	}
}

func levelsFor(dirs []int, pdir int) []int {
	l := make([]int, len(dirs))
	for i, d := range dirs {
		if d == pdir {
			l[i] = pdir
		} else {
			l[i] = pdir + 1
		}
	}
	return l
}

// real fonts for the pipeline class
type realFontmap struct{ faces []*font.Face }

func (f realFontmap) ResolveFace(r rune) *font.Face {
	for _, fc := range f.faces {
		if _, ok := fc.NominalGlyph(r); ok {
			return fc
		}
	}
	return f.faces[0]
}

func realFaces() ([]*font.Face, error) {
	var out []*font.Face
	for _, p := range []string{"perf_reference/fonts/Roboto-Regular.ttf", "perf_reference/fonts/Amiri-Regular.ttf", "perf_reference/fonts/NotoSansDevanagari-Regular.ttf"} {
		b, err := tdh.Files.ReadFile(p)
		if err != nil {
			return nil, err
		}
		f, err := font.ParseTTF(bytes.NewReader(b))
		if err != nil {
			return nil, err
		}
		out = append(out, f)
	}
	b, err := td.Files.ReadFile("common/FreeSerif.ttf")
	if err == nil {
		if f, err := font.ParseTTF(bytes.NewReader(b)); err == nil {
			out = append(out, f)
		}
	}
	return out, nil
}

func wrapMain(args []string) error {
	if len(args) == 0 {
		return fmt.Errorf("wrap: missing sub-command")
	}
	seed := seedFromEnv()
	switch args[0] {
	case "enum":
		// wrap enum <maxN> <maxRuns> <mode> <prefix> <shards>
		// mode: core (no spacing) | ls (letter/word spacing class) | malformed
		maxN, _ := strconv.Atoi(args[1])
		maxRuns, _ := strconv.Atoi(args[2])
		mode := args[3]
		prefix := args[4]
		shards, _ := strconv.Atoi(args[5])
		full := os.Getenv("VERIF_TIER") == "thorough"
		if mode == "words" {
			// longer texts made of letters and spaces only: words that fit / do not fit on their own line
			enumAlphabet = []rune{'a', ' '}
			enumMinN = 4
			enumGps = []int{1}
		}
		sw := newShardWriter(prefix, shards)
		defer sw.close()
		lws := make([]*shaping.LineWrapper, shards)
		for i := range lws {
			lws[i] = &shaping.LineWrapper{}
		}
		rng := rand.New(rand.NewSource(seed*31 + 5))
		count, paras := 0, 0
		enumSynth(maxN, maxRuns, full, func(s synth, wf bool) {
			if (mode == "malformed") == wf {
				return
			}
			if mode == "words" && len(s.clusters) != len(s.text) && len(s.clusters) != len(s.text)-1 {
				return // 1:1 clusters, or exactly one two-rune cluster
			}
			cls := "core"
			if mode == "ls" {
				cls = "ls"
				// spacing variant chosen per scenario
				switch count % 3 {
				case 0:
					s.ls = 2
				case 1:
					s.ls = 2
					s.ws = 2
				case 2:
					s.ws = 2
				}
			} else if mode == "malformed" {
				cls = "malformed"
			}
			count++
			total := s.totalPx()
			sh := count % shards
			for pdir := 0; pdir <= 1; pdir++ {
				for pol := 0; pol <= 2; pol++ {
					for _, tr := range []int{0, 1, 2} {
						for _, cont := range []bool{false, true} {
							if tr == 0 && cont {
								continue
							}
							widths := make([]int, 0, total+5)
							for w := 0; w <= total+1; w++ {
								widths = append(widths, w)
							}
							// "unlimited" widths, as callers pass them (a seeded third of each)
							for _, hw := range []int{1<<25 - 1, 1 << 25, math.MaxInt32} {
								if rng.Intn(3) == 0 {
									widths = append(widths, hw)
								}
							}
							for _, w := range widths {
								// the full cross product is kept for the core class; for the other
								// classes and the secondary knobs a seeded sample keeps the volume down
								api, delta, notrim := "para", 0, false
								pick := rng.Intn(8)
								if pick == 0 {
									api, delta = "next", 1
								} else if pick == 1 {
									api, delta = "next", -1
								} else if pick == 2 {
									notrim = true
								}
								if w > total+1 && delta != 0 {
									delta = 0 // keep width+delta inside 32 bits (TLC integers)
								}
								if mode == "ls" && !full && rng.Intn(6) != 0 {
									continue
								}
								if mode == "core" && !full && len(s.text) == maxN && maxN >= 3 && rng.Intn(2) != 0 {
									continue
								}
								if mode == "core" && full && len(s.text) == maxN && maxN >= 4 && rng.Intn(8) != 0 {
									continue // 2e7 paragraphs at length 4: a seeded eighth of the (config, width) combinations (disk: the traces of the full product take > 60 GB)
								}
								cls := cls
								if cls == "ls" {
									for _, d := range s.dirs {
										if d != 0 {
											cls = "lsrtl"
										}
									}
									if pdir != 0 {
										cls = "lsrtl"
									}
								}
								tdirv := pdir
								if tr > 0 && rng.Intn(4) == 0 {
									tdirv = 1 - pdir
								}
								// truncators of different advance follow each other on the re-used wrapper
								tadv := 64
								if tr > 0 && rng.Intn(2) == 0 {
									tadv = 64 * (2 + rng.Intn(2))
								}
								sc := wrapScenario{id: s.key(), cls: cls, text: s.text, build: s.build, lvls: levelsFor(s.dirs, pdir),
									cfg: wCfg{Pdir: pdir, Pol: pol, Trunc: tr, Tadv: tadv, Cont: cont, Notrim: notrim, Tdir: tdirv}, width: w, api: api, delta: delta}
								if api == "next" && rng.Intn(5) == 0 {
									sc.abandonAfter = 1 + rng.Intn(2)
								}
								sc.syn = &s
								runScenario(sw.encs[sh], lws[sh], sc)
								paras++
							}
						}
					}
				}
			}
		})
		fmt.Printf("{\"scenarios\": %d, \"paragraphs\": %d}\n", count, paras)
		return nil

	case "long":
		// wrap long <prefix> <shards>: paragraphs of many lines (more line runs than the wrapper's initial
		// storage of 100): k words of one or two letters, one cluster per rune, one or two runs, a width of
		// one or two words, every policy, both APIs, both paragraph directions
		prefix := args[1]
		shards, _ := strconv.Atoi(args[2])
		sw := newShardWriter(prefix, shards)
		defer sw.close()
		lws := make([]*shaping.LineWrapper, shards)
		for i := range lws {
			lws[i] = &shaping.LineWrapper{}
		}
		rng := rand.New(rand.NewSource(seed*17 + 3))
		count, paras := 0, 0
		for _, k := range []int{102 + rng.Intn(6)} {
			for _, wl := range []int{1} {
				var text []rune
				for i := 0; i < k; i++ {
					for j := 0; j < wl; j++ {
						text = append(text, 'a')
					}
					if i+1 < k {
						text = append(text, ' ')
					}
				}
				for _, nruns := range []int{1, 2} {
					s := synth{text: text, glyphsPer: 1}
					for i := range text {
						s.clusters = append(s.clusters, i)
					}
					s.runSplit, s.dirs = []int{0}, []int{0}
					if nruns == 2 {
						s.runSplit, s.dirs = []int{0, (wl + 1) * (k / 2)}, []int{0, 0}
					}
					count++
					unit := s.totalPx() / len(text)
					for pdir := 0; pdir <= 0; pdir++ {
						for pol := 0; pol <= 2; pol++ {
							for _, api := range []string{"para", "next"} {
								for _, words := range []int{1} {
									s := s
									w := unit * (words*(wl+1) - 1)
									sc := wrapScenario{id: s.key(), cls: "long", text: s.text, build: s.build, lvls: levelsFor(s.dirs, pdir),
										cfg: wCfg{Pdir: pdir, Pol: pol, Trunc: 0, Tadv: 64, Tdir: pdir}, width: w, api: api}
									sc.syn = &s
									// one paragraph per shard where possible: each meets a wrapper whose line storage is still
									// at its initial capacity, and the monitor's work (quadratic in the paragraph) is spread
									sh := paras % shards
									runScenario(sw.encs[sh], lws[sh], sc)
									paras++
								}
							}
						}
					}
				}
			}
		}
		fmt.Printf("{\"scenarios\": %d, \"paragraphs\": %d}\n", count, paras)
		return nil

	case "bidi":
		// wrap bidi <maxRuns> <prefix> <shards>: every level sequence over base..base+3 (C08)
		maxRuns, _ := strconv.Atoi(args[1])
		prefix := args[2]
		shards, _ := strconv.Atoi(args[3])
		sw := newShardWriter(prefix, shards)
		defer sw.close()
		lws := make([]*shaping.LineWrapper, shards)
		for i := range lws {
			lws[i] = &shaping.LineWrapper{}
		}
		rng := rand.New(rand.NewSource(seed*131 + 9))
		paras := 0
		for n := 1; n <= maxRuns; n++ {
			idx := make([]int, n)
			for {
				for base := 0; base <= 1; base++ {
					lv := make([]int, n)
					dirs := make([]int, n)
					for i, x := range idx {
						lv[i] = base + x
						dirs[i] = lv[i] % 2
					}
					// text: one letter per run, optionally a space at one position
					spaceAt := rng.Intn(n+1) - 1 // -1: none
					variants := []struct {
						trunc int
						cont  bool
						tflip int
					}{{0, false, 0}, {1, true, 0}, {1, true, 1}}
					for _, v := range variants {
						text := make([]rune, n)
						for i := range text {
							text[i] = 'a'
							if i == spaceAt {
								text[i] = ' '
							}
						}
						s := synth{text: text, glyphsPer: 1}
						for i := 0; i < n; i++ {
							s.clusters = append(s.clusters, i)
							s.runSplit = append(s.runSplit, i)
						}
						s.dirs = dirs
						sc := wrapScenario{id: fmt.Sprintf("levels=%v base=%d space=%d trunc=%d tflip=%d", lv, base, spaceAt, v.trunc, v.tflip), cls: "bidi", text: text, build: s.build,
							lvls: lv, cfg: wCfg{Pdir: base, Pol: 0, Trunc: v.trunc, Tadv: 64, Cont: v.cont, Tdir: (base + v.tflip) % 2}, width: 1000, api: "next"}
						sc.syn = &s
						sh := paras % shards
						runScenario(sw.encs[sh], lws[sh], sc)
						paras++
					}
				}
				k := n - 1
				for k >= 0 {
					idx[k]++
					if idx[k] < 4 {
						break
					}
					idx[k] = 0
					k--
				}
				if k < 0 {
					break
				}
			}
		}
		fmt.Printf("{\"paragraphs\": %d}\n", paras)
		return nil

	case "real":
		// wrap real <paragraphs> <prefix> <shards>: the real pipeline Split -> Shape -> (AddSpacing) -> wrap on corpus fonts:
		// ligatures, multi-glyph clusters, clusters straddling break opportunities, cluster-fused newlines
		count, _ := strconv.Atoi(args[1])
		prefix := args[2]
		shards, _ := strconv.Atoi(args[3])
		faces, err := realFaces()
		if err != nil {
			return err
		}
		sw := newShardWriter(prefix, shards)
		defer sw.close()
		lws := make([]*shaping.LineWrapper, shards)
		for i := range lws {
			lws[i] = &shaping.LineWrapper{}
		}
		rng := rand.New(rand.NewSource(seed*271 + 13))
		words := [][]rune{[]rune("office"), []rune("fluffy"), []rune("AVATAR"), []rune("fi"), []rune("سلام"), []rune("عليكم"), []rune("لله"), []rune("שָׁלוֹם"), []rune("עולם"),
			[]rune("क्षत्रिय"), []rune("हिन्दी"), []rune("123"), []rune("4,5"), []rune("(x)"), []rune("a-b"), []rune("é"), {'e', 0x0301}, []rune("Ελλάδα"), {'\n'}, {0x2028}, []rune("co-op"), []rune("…")}
		paras := 0
		var seg shaping.Segmenter
		var sh shaping.HarfbuzzShaper
		for c := 0; c < count; c++ {
			var text []rune
			nw := 1 + rng.Intn(6)
			for w := 0; w < nw; w++ {
				if w > 0 && rng.Intn(5) != 0 {
					text = append(text, ' ')
				}
				text = append(text, words[rng.Intn(len(words))]...)
			}
			pdir := rng.Intn(2)
			dir := di.DirectionLTR
			if pdir == 1 {
				dir = di.DirectionRTL
			}
			fm := realFontmap{faces}
			inputs := seg.Split(shaping.Input{Text: text, RunStart: 0, RunEnd: len(text), Direction: dir, Size: fixed.I(16), Language: "en"}, fm)
			shaped := make([]shaping.Output, len(inputs))
			ok := true
			for i, in := range inputs {
				func() {
					defer func() {
						if r := recover(); r != nil {
							ok = false
						}
					}()
					shaped[i] = sh.Shape(in)
				}()
			}
			if !ok {
				continue
			}
			ls := 0
			allLTR := pdir == 0
			for _, o := range shaped {
				if o.Direction.Progression() == di.TowardTopLeft {
					allLTR = false
				}
			}
			cls := "real"
			if allLTR && rng.Intn(4) == 0 {
				ls = 2
				cls = "ls"
			}
			build := func() []shaping.Output {
				out := make([]shaping.Output, len(shaped))
				for i := range shaped {
					out[i] = shaped[i]
					out[i].Glyphs = append([]shaping.Glyph(nil), shaped[i].Glyphs...)
				}
				if ls != 0 {
					shaping.AddSpacing(out, text, 0, fixed.I(ls))
				}
				return out
			}
			total := 0
			lv := make([]int, len(shaped))
			for i, o := range build() {
				total += o.Advance.Ceil()
				d := dirCode(o.Direction)
				if d == pdir {
					lv[i] = pdir
				} else {
					lv[i] = pdir + 1
				}
			}
			for _, frac := range []int{0, 1, 3, 5, 8, 12} {
				w := total * frac / 10
				if frac == 0 {
					w = 1 + rng.Intn(20)
				}
				pol := rng.Intn(3)
				tr := []int{0, 0, 1, 2, 3}[rng.Intn(5)]
				tdirv := pdir
				if tr > 0 && rng.Intn(4) == 0 {
					tdirv = 1 - pdir
				}
				api := "para"
				if rng.Intn(3) == 0 {
					api = "next"
				}
				sc := wrapScenario{id: fmt.Sprintf("real text=%x pdir=%d ls=%d", text, pdir, ls), cls: cls, text: text, build: build, lvls: lv,
					cfg: wCfg{Pdir: pdir, Pol: pol, Trunc: tr, Tadv: 64 * 9, Cont: tr > 0 && rng.Intn(2) == 0, Notrim: rng.Intn(5) == 0, Tdir: tdirv}, width: w, api: api, delta: rng.Intn(3) - 1}
				sh2 := paras % shards
				runScenario(sw.encs[sh2], lws[sh2], sc)
				paras++
			}
		}
		fmt.Printf("{\"paragraphs\": %d}\n", paras)
		return nil

	case "replay":
		// wrap replay <json of a synth scenario + cfg>: prints events for one scenario
		var in struct {
			Text      []int  `json:"text"`
			Clusters  []int  `json:"clusters"`
			RunSplit  []int  `json:"runs"`
			Dirs      []int  `json:"dirs"`
			Lvls      []int  `json:"lvls"`
			GlyphsPer int    `json:"gp"`
			Alt       bool   `json:"alt"`
			Ls        int    `json:"ls"`
			Ws        int    `json:"ws"`
			Cfg       wCfg   `json:"cfg"`
			W         int    `json:"w"`
			Api       string `json:"api"`
			Delta     int    `json:"delta"`
		}
		if err := json.Unmarshal([]byte(strings.Join(args[1:], " ")), &in); err != nil {
			return err
		}
		text := make([]rune, len(in.Text))
		for i, v := range in.Text {
			text[i] = rune(v)
		}
		s := synth{text: text, clusters: in.Clusters, runSplit: in.RunSplit, dirs: in.Dirs, glyphsPer: in.GlyphsPer, advAlt: in.Alt, ls: in.Ls, ws: in.Ws}
		sort.Ints(s.clusters)
		lv := in.Lvls
		if lv == nil {
			lv = levelsFor(in.Dirs, in.Cfg.Pdir)
		}
		sc := wrapScenario{id: s.key(), cls: "replay", text: text, build: s.build, lvls: lv, cfg: in.Cfg, width: in.W, api: in.Api, delta: in.Delta}
		runScenario(json.NewEncoder(os.Stdout), &shaping.LineWrapper{}, sc)
		return nil
	}
	return fmt.Errorf("wrap: unknown sub-command %q", args[0])
}

func init() { cmds["wrap"] = wrapMain }
