package main

// Engine "glyf" (C10, partial): for glyphs of TrueType corpus fonts, records the raw bytes of the
// glyph record (read through the Loader) next to what the font package decodes from it: outline
// segments, extents, horizontal advance, units per em. TLC decodes the bytes itself (Glyf.tla).

import (
	"bytes"
	"encoding/binary"
	"encoding/json"
	"fmt"
	"math/rand"
	"strconv"

	"github.com/go-text/typesetting/font"
	ot "github.com/go-text/typesetting/font/opentype"
	"github.com/go-text/typesetting/font/opentype/tables"
)

func glyfMain(args []string) error {
	// glyf corpus <maxFiles> <glyphsPerFont> <prefix> <shards>
	if len(args) < 5 {
		return fmt.Errorf("glyf: usage: glyf corpus <maxFiles> <glyphs> <prefix> <shards>")
	}
	max, _ := strconv.Atoi(args[1])
	per, _ := strconv.Atoi(args[2])
	shards, _ := strconv.Atoi(args[4])
	seed := seedFromEnv()
	sw := newShardWriter(args[3], shards)
	defer sw.close()
	var jobs []func(enc *json.Encoder)
	nfonts := 0
	for fi, cf := range sampleCorpus(max, seed+5) {
		if sfntDir(cf.Data) == nil {
			continue
		}
		ld, err := ot.NewLoader(bytes.NewReader(cf.Data))
		if err != nil {
			continue
		}
		raw := func(tag string) []byte {
			b, err := ld.RawTable(ot.MustNewTag(tag))
			if err != nil {
				return nil
			}
			return b
		}
		glyf, loca, hmtx, hhea, head, maxp := raw("glyf"), raw("loca"), raw("hmtx"), raw("hhea"), raw("head"), raw("maxp")
		if glyf == nil || loca == nil || hmtx == nil || len(hhea) < 36 || len(head) < 54 || len(maxp) < 6 {
			continue
		}
		if raw("sbix") != nil || raw("CBDT") != nil || raw("EBDT") != nil || raw("bdat") != nil || raw("CFF ") != nil || raw("CFF2") != nil || raw("SVG ") != nil {
			continue // another glyph source takes precedence over glyf in the font package (bitmap strikes, CFF, SVG)
		}
		ft, err := font.NewFont(ld)
		if err != nil {
			continue
		}
		face := font.NewFace(ft)
		nfonts++
		id := cf.ID
		rng := rand.New(rand.NewSource(seed*11 + int64(fi)))
		jobs = append(jobs, func(enc *json.Encoder) {
			numGlyphs := int(binary.BigEndian.Uint16(maxp[4:]))
			long := binary.BigEndian.Uint16(head[50:]) != 0
			nhm := int(binary.BigEndian.Uint16(hhea[34:]))
			off := func(i int) int {
				if long {
					if 4*i+4 > len(loca) {
						return -1
					}
					return int(binary.BigEndian.Uint32(loca[4*i:]))
				}
				if 2*i+2 > len(loca) {
					return -1
				}
				return 2 * int(binary.BigEndian.Uint16(loca[2*i:]))
			}
			var gids []int
			if numGlyphs <= per {
				for g := 0; g < numGlyphs; g++ {
					gids = append(gids, g)
				}
			} else {
				for k := 0; k < per; k++ {
					gids = append(gids, rng.Intn(numGlyphs))
				}
			}
			// always include some glyphs with a one-point contour (anchors): a rare, case-rich shape
			extra := 0
			for g := 0; g < numGlyphs && extra < 10; g++ {
				s0, e0 := off(g), off(g+1)
				if s0 < 0 || e0-s0 < 12 || e0 > len(glyf) {
					continue
				}
				nc := int(int16(binary.BigEndian.Uint16(glyf[s0:])))
				prev := -1
				for c := 0; c < nc && s0+10+2*c+2 <= e0; c++ {
					end := int(binary.BigEndian.Uint16(glyf[s0+10+2*c:]))
					if end == prev+1 {
						gids = append(gids, g)
						extra++
						break
					}
					prev = end
				}
			}
			// a variable font is first used at a non-default instance, then brought back to its default
			// coordinates: what is recorded below must be the default glyphs again
			if fv := raw("fvar"); fv != nil && raw("gvar") != nil {
				if fvar, _, err := tables.ParseFvar(fv); err == nil && len(fvar.FvarRecords.Axis) > 0 {
					var vs []font.Variation
					for _, ax := range fvar.FvarRecords.Axis {
						vs = append(vs, font.Variation{Tag: ax.Tag, Value: float32(ax.Maximum)})
					}
					func() {
						defer func() { recover() }()
						face.SetVariations(vs)
						for _, g := range gids {
							face.GlyphExtents(font.GID(g))
							face.HorizontalAdvance(font.GID(g))
						}
						face.SetVariations(nil)
					}()
				}
			}
			for _, g := range gids {
				s, e := off(g), off(g+1)
				if s < 0 || e < s || e > len(glyf) || nhm == 0 || 4*nhm > len(hmtx) {
					continue
				}
				rec := glyf[s:e]
				simple := len(rec) >= 10 && int16(binary.BigEndian.Uint16(rec)) >= 0
				if len(rec) == 0 {
					rec = make([]byte, 10) // an empty glyph is a simple glyph with zero contours
					simple = true
				}
				if len(rec) > 3000 {
					continue // keep TLC's byte decoding cheap
				}
				ev := map[string]interface{}{"font": id, "gid": g, "simple": simple, "glyf": bytesToInts(rec), "head": bytesToInts(head[:54]), "nhm": nhm,
					"advgid": 0, "advlast": int(binary.BigEndian.Uint16(hmtx[4*(nhm-1):])), "segs": [][][]interface{}{}, "ext": [4]int{}, "p": "ok"}
				ev["lsb"] = 0
				if g < nhm {
					ev["advgid"] = int(binary.BigEndian.Uint16(hmtx[4*g:]))
					ev["lsb"] = int(int16(binary.BigEndian.Uint16(hmtx[4*g+2:])))
				} else if p := 4*nhm + 2*(g-nhm); p+2 <= len(hmtx) {
					ev["lsb"] = int(int16(binary.BigEndian.Uint16(hmtx[p:])))
				}
				ev["upem"] = int(face.Upem())
				ev["adv"] = int(face.HorizontalAdvance(font.GID(g)))
				lsbOf := func(g int) int {
					if g < nhm {
						return int(int16(binary.BigEndian.Uint16(hmtx[4*g+2:])))
					} else if p := 4*nhm + 2*(g-nhm); p+2 <= len(hmtx) {
						return int(int16(binary.BigEndian.Uint16(hmtx[p:])))
					}
					return 0
				}
				judgeOutline := simple
				if !simple && len(rec) >= 10 {
					// composite: the records of the referenced components are supplied as facts (the glyph ids are
					// read here only to fetch them; the specification decodes the composite record itself and
					// checks that these are the components it finds)
					parts := []map[string]interface{}{}
					ok := true
					for p := 10; p+4 <= len(rec) && len(parts) < 64; {
						fl := binary.BigEndian.Uint16(rec[p:])
						cg := int(binary.BigEndian.Uint16(rec[p+2:]))
						cs, ce := off(cg), off(cg+1)
						if cs < 0 || ce < cs || ce > len(glyf) || ce-cs > 1500 {
							ok = false
							break
						}
						crec := glyf[cs:ce]
						if len(crec) == 0 {
							crec = make([]byte, 10)
						}
						if len(crec) < 10 || int16(binary.BigEndian.Uint16(crec)) < 0 {
							ok = false // nested composite: not judged
							break
						}
						parts = append(parts, map[string]interface{}{"gid": cg, "glyf": bytesToInts(crec), "lsb": lsbOf(cg)})
						p += 4
						if fl&1 != 0 {
							p += 4
						} else {
							p += 2
						}
						switch {
						case fl&0x8 != 0:
							p += 2
						case fl&0x40 != 0:
							p += 4
						case fl&0x80 != 0:
							p += 8
						}
						if fl&0x20 == 0 {
							break
						}
					}
					if !ok {
						parts = []map[string]interface{}{}
					}
					ev["parts"] = parts
					judgeOutline = len(parts) > 0
				}
				if judgeOutline {
					ext, _ := face.GlyphExtents(font.GID(g))
					ev["ext"] = [4]int{int(ext.XBearing), int(ext.YBearing), int(ext.Width), int(ext.Height)}
					contours := [][][]interface{}{}
					// a first, throw-away query whose result is scribbled on: what the face returns afterwards must
					// still be the font's outline (results are values owned by the caller)
					if first, ok := face.GlyphData(font.GID(g)).(font.GlyphOutline); ok {
						for i := range first.Segments {
							for k := range first.Segments[i].Args {
								first.Segments[i].Args[k].X += 977
								first.Segments[i].Args[k].Y -= 311
							}
						}
						first.Sideways(123)
					}
					if outline, ok := face.GlyphData(font.GID(g)).(font.GlyphOutline); ok {
						var cur [2]int
						for _, sg := range outline.Segments {
							pt := func(i int) [2]int { return [2]int{int(sg.Args[i].X * 2), int(sg.Args[i].Y * 2)} }
							switch sg.Op {
							case ot.SegmentOpMoveTo:
								contours = append(contours, [][]interface{}{})
								cur = pt(0)
							case ot.SegmentOpLineTo:
								if len(contours) == 0 {
									contours = append(contours, [][]interface{}{})
								}
								p := pt(0)
								contours[len(contours)-1] = append(contours[len(contours)-1], []interface{}{"L", cur[0], cur[1], p[0], p[1]})
								cur = p
							case ot.SegmentOpQuadTo:
								if len(contours) == 0 {
									contours = append(contours, [][]interface{}{})
								}
								c, p := pt(0), pt(1)
								contours[len(contours)-1] = append(contours[len(contours)-1], []interface{}{"Q", cur[0], cur[1], c[0], c[1], p[0], p[1]})
								cur = p
							default:
								ev["p"] = "cubic segment in a glyf outline"
							}
						}
					}
					ev["segs"] = contours
				}
				enc.Encode(ev)
			}
		})
	}
	runJobs(sw, jobs)
	fmt.Printf("{\"fonts\": %d}\n", nfonts)
	return nil
}

func init() { cmds["glyf"] = glyfMain }
