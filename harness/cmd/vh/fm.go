package main

// Engine "fm" (C14): executes histories of FontMap operations on the real fontscan.FontMap
// and records every ResolveFace result (index of the returned face in insertion order),
// together with the answer of a freshly built map. Histories come from TLC (FontMapGen.tla)
// or from the seeded random generator below. TLC (FontMapV.tla) validates.

import (
	"bufio"
	"encoding/json"
	"fmt"
	"io"
	"log"
	"math/rand"
	"os"
	"sort"
	"strconv"
	"strings"

	"github.com/go-text/typesetting/font"
	"github.com/go-text/typesetting/fontscan"
	"github.com/go-text/typesetting/language"
)

type fmOp struct {
	Op    string     `json:"op"`
	Fam   string     `json:"fam,omitempty"`
	Asp   *cssAspect `json:"asp,omitempty"`
	Runes []int      `json:"runes,omitempty"`
	Ttf   bool       `json:"ttf,omitempty"`
	Fams  []string   `json:"fams,omitempty"`
	S     string     `json:"s,omitempty"`
	K     int        `json:"k,omitempty"`
	R     int        `json:"r,omitempty"`
}

type fmEvent = map[string]interface{}

func scriptName(s language.Script) string {
	if s == 0 {
		return "none"
	}
	return s.String()
}

func scriptByName(n string) language.Script {
	if n == "none" || n == "" {
		return 0
	}
	s, err := language.ParseScript(n)
	if err != nil {
		panic(err)
	}
	return s
}

type fmAdded struct {
	face *font.Face
	op   fmOp
	file string
}

type fmState struct {
	fm     *fontscan.FontMap
	added  []fmAdded
	query  fontscan.Query
	script language.Script
	hasQ   bool
}

func (st *fmState) addTo(fm *fontscan.FontMap, a fmAdded) {
	fm.AddFace(a.face, fontscan.Location{File: a.file}, font.Description{Family: a.op.Fam, Aspect: a.op.Asp.real()})
}

func (st *fmState) indexOf(f *font.Face) int {
	if f == nil {
		return 0
	}
	for i, a := range st.added {
		if a.face == f {
			return i + 1
		}
	}
	return -2 // a face that was never added
}

func resolveGuard(fm *fontscan.FontMap, r rune) (f *font.Face, panicked bool) {
	defer func() {
		if e := recover(); e != nil {
			panicked = true
		}
	}()
	return fm.ResolveFace(r), false
}

var faceCache = map[string]*font.Face{}

func faceFor(runes []int) *font.Face {
	// distinct *font.Face per AddFace (identity is what ResolveFace returns), but share the font bytes
	rs := make([]rune, len(runes))
	for i, v := range runes {
		rs[i] = rune(v)
	}
	return synthFace(rs)
}

func execHistory(enc *json.Encoder, t int, ops []fmOp) {
	st := &fmState{fm: fontscan.NewFontMap(log.New(io.Discard, "", 0))}
	enc.Encode(fmEvent{"t": t, "ev": "New"})
	for _, op := range ops {
		switch op.Op {
		case "AddFace":
			a := fmAdded{face: faceFor(op.Runes), op: op, file: fmt.Sprintf("h%d-f%d", t, len(st.added))}
			if op.Ttf {
				a.file += ".ttf"
			} else {
				a.file += ".otf"
			}
			st.added = append(st.added, a)
			st.addTo(st.fm, a)
			scr := map[string]bool{}
			scripts := []string{}
			for _, r := range op.Runes {
				n := scriptName(language.LookupScript(rune(r)))
				if !scr[n] {
					scr[n] = true
					scripts = append(scripts, n)
				}
			}
			ttf := op.Ttf
			runes := op.Runes
			if runes == nil {
				runes = []int{}
			}
			enc.Encode(fmEvent{"t": t, "ev": "AddFace", "fam": font.NormalizeFamily(op.Fam), "asp": op.Asp, "runes": runes, "scripts": scripts, "ttf": ttf, "mono": strings.Contains(font.NormalizeFamily(op.Fam), "mono")})
		case "SetQuery":
			st.query = fontscan.Query{Families: op.Fams, Aspect: op.Asp.real()}
			st.hasQ = true
			st.fm.SetQuery(st.query)
			fams := make([]string, len(op.Fams))
			for i, f := range op.Fams {
				fams[i] = font.NormalizeFamily(f)
			}
			enc.Encode(fmEvent{"t": t, "ev": "SetQuery", "fams": fams, "asp": op.Asp})
		case "SetScript":
			st.script = scriptByName(op.S)
			st.fm.SetScript(st.script)
			enc.Encode(fmEvent{"t": t, "ev": "SetScript", "s": scriptName(st.script)})
		case "SetCache":
			st.fm.SetRuneCacheSize(op.K)
			enc.Encode(fmEvent{"t": t, "ev": "SetCache", "k": op.K})
		case "Resolve":
			f, p := resolveGuard(st.fm, rune(op.R))
			got := st.indexOf(f)
			if p {
				got = -1
			}
			// the same question asked to a map built from scratch
			fresh := fontscan.NewFontMap(log.New(io.Discard, "", 0))
			fg := 0
			func() {
				defer func() {
					if e := recover(); e != nil {
						fg = -1
					}
				}()
				for _, a := range st.added {
					st.addTo(fresh, a)
				}
				if st.hasQ {
					fresh.SetQuery(st.query)
				}
				if st.script != 0 {
					fresh.SetScript(st.script)
				}
				fg = st.indexOf(fresh.ResolveFace(rune(op.R)))
			}()
			// facts from the library's substitution tables (verif export): the expanded family list of the
			// current query under the current script, and of each generic keyword of the query, restricted
			// to the families present in the map. FontMap.tla specifies how they must be used.
			inMap := map[string]bool{}
			for _, a := range st.added {
				inMap[font.NormalizeFamily(a.op.Fam)] = true
			}
			restrict := func(cr map[string][2]int) [][]interface{} {
				out := [][]interface{}{}
				var keys []string
				for k := range cr {
					if inMap[k] {
						keys = append(keys, k)
					}
				}
				sort.Strings(keys)
				for _, k := range keys {
					out = append(out, []interface{}{k, cr[k][0], cr[k][1] == 1})
				}
				return out
			}
			crible := restrict(fontscan.VerifCrible(st.query.Families, st.script))
			gen := [][]interface{}{}
			seenG := map[string]bool{}
			for _, f := range st.query.Families {
				nf := font.NormalizeFamily(f)
				if fontscan.VerifIsGeneric(f) && !seenG[nf] {
					seenG[nf] = true
					gen = append(gen, []interface{}{nf, restrict(fontscan.VerifCrible([]string{f}, 0))})
				}
			}
			enc.Encode(fmEvent{"t": t, "ev": "Resolve", "r": op.R, "got": got, "fresh": fg, "crible": crible, "gen": gen})
		}
	}
}

var fmFams = []string{"vfalpha", "vfbeta", "vfgamma"}

// families with entries in the substitution tables: fonts named like a substitute, queries naming
// the substituted family or a generic one
var fmSubFams = []string{"Nimbus Sans", "DejaVu Serif", "Liberation Mono", "Liberation Serif"}
var fmSubQueries = []string{"Helvetica", "serif", "sans-serif", "Times New Roman", "monospace", "Arial"}
var fmScripts = []string{"Latn", "Cyrl", "Hebr", "Hani", "none"}
var fmUniverse = []int{'a', 'b', 'я', 'א', '漢', '1'}
var fmAspects = []cssAspect{{1000, 1, 400}, {1000, 2, 400}, {1000, 1, 700}, {750, 1, 300}, {1250, 2, 900}}

func randHistory(rng *rand.Rand, steps int) []fmOp {
	var ops []fmOp
	nadd := 0
	subs := rng.Intn(3) == 0 // a third of the histories use generic / substituted families
	add := func() {
		var rs []int
		for _, r := range fmUniverse {
			if rng.Intn(2) == 0 {
				rs = append(rs, r)
			}
		}
		a := fmAspects[rng.Intn(len(fmAspects))]
		if rng.Intn(8) == 0 {
			// description with unset aspect fields (a natural call: font.Description{Family: ...})
			a = cssAspect{}
			if rng.Intn(2) == 0 {
				a.W = 700
			}
		}
		fam := fmFams[rng.Intn(len(fmFams))]
		if subs && rng.Intn(2) == 0 {
			fam = fmSubFams[rng.Intn(len(fmSubFams))]
		}
		ops = append(ops, fmOp{Op: "AddFace", Fam: fam, Asp: &a, Runes: rs, Ttf: rng.Intn(2) == 0})
		nadd++
	}
	ops = append(ops, fmOp{Op: "SetCache", K: []int{0, 1, 2, 4096}[rng.Intn(4)]})
	add()
	for i := 0; i < steps; i++ {
		switch rng.Intn(7) {
		case 0:
			if nadd < 6 {
				add()
			}
		case 1:
			k := 1 + rng.Intn(3)
			var fams []string
			for j := 0; j < k; j++ {
				if subs && rng.Intn(2) == 0 {
					fams = append(fams, fmSubQueries[rng.Intn(len(fmSubQueries))])
				} else {
					fams = append(fams, fmFams[rng.Intn(len(fmFams))])
				}
			}
			a := cssAspect{}
			if rng.Intn(2) == 0 {
				a = fmAspects[rng.Intn(len(fmAspects))]
			} else if rng.Intn(3) == 0 {
				a = cssAspect{0, 2, 450}
			}
			ops = append(ops, fmOp{Op: "SetQuery", Fams: fams, Asp: &a})
		case 2:
			ops = append(ops, fmOp{Op: "SetScript", S: fmScripts[rng.Intn(len(fmScripts))]})
		case 3:
			ops = append(ops, fmOp{Op: "SetCache", K: []int{0, 1, 2, 4096}[rng.Intn(4)]})
		default:
			ops = append(ops, fmOp{Op: "Resolve", R: fmUniverse[rng.Intn(len(fmUniverse))]})
		}
	}
	return ops
}

func fmMain(args []string) error {
	if len(args) < 1 {
		return fmt.Errorf("fm: missing sub-command")
	}
	seed := seedFromEnv()
	switch args[0] {
	case "rand":
		// fm rand <histories> <steps> <prefix> <shards>
		n, _ := strconv.Atoi(args[1])
		steps, _ := strconv.Atoi(args[2])
		shards, _ := strconv.Atoi(args[4])
		sw := newShardWriter(args[3], shards)
		defer sw.close()
		rng := rand.New(rand.NewSource(seed*613 + 11))
		for t := 0; t < n; t++ {
			execHistory(sw.encs[t%shards], t, randHistory(rng, steps))
		}
		fmt.Printf("{\"histories\": %d}\n", n)
		return nil
	case "exec":
		// fm exec <histories.ndjson> <prefix> <shards>: one JSON array of ops per line (from TLC)
		f, err := os.Open(args[1])
		if err != nil {
			return err
		}
		defer f.Close()
		shards, _ := strconv.Atoi(args[3])
		sw := newShardWriter(args[2], shards)
		defer sw.close()
		sc := bufio.NewScanner(f)
		sc.Buffer(make([]byte, 1<<20), 1<<24)
		t := 0
		for sc.Scan() {
			var ops []fmOp
			if err := json.Unmarshal(sc.Bytes(), &ops); err != nil {
				return fmt.Errorf("history %d: %v", t, err)
			}
			execHistory(sw.encs[t%shards], t, ops)
			t++
		}
		fmt.Printf("{\"histories\": %d}\n", t)
		return sc.Err()
	}
	return fmt.Errorf("fm: unknown sub-command")
}

func init() { cmds["fm"] = fmMain }
