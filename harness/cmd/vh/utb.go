package main

// Engine "utb" (C18): shapes whole texts with harfbuzz.Buffer, cuts them at the cluster boundaries
// that are not flagged unsafe-to-break, shapes the pieces with the neighbouring text as context,
// and records whole + pieces. TLC (SafeBreakV.tla) recomputes the cut set and decides.

import (
	"encoding/json"
	"fmt"
	"math/rand"
	"sort"
	"strconv"
	"time"
	"unicode"

	"golang.org/x/text/unicode/norm"

	"github.com/go-text/typesetting/font"
	ot "github.com/go-text/typesetting/font/opentype"
	"github.com/go-text/typesetting/harfbuzz"
	"github.com/go-text/typesetting/language"
)

type utbGlyph struct {
	Cl     int    `json:"cl"`
	Unsafe bool   `json:"unsafe"`
	Sig    string `json:"sig"`
}

type utbFrag struct {
	S    int      `json:"s"`
	E    int      `json:"e"`
	Bot  bool     `json:"bot"`
	Eot  bool     `json:"eot"`
	Sigs []string `json:"sigs"`
}

// utbFeatures are the optional (not enabled by default) features some cases switch on, over the whole text
var utbFeatureTags = []string{"ordn", "frac", "dlig", "salt", "ss01", "zero", "onum", "smcp", "c2sc", "hlig", "swsh", "cv01"}

var utbLangs = []language.Language{"", "nl", "ca", "tr", "ro", "sr", "ur", "mr", "zh-hant"}

func utbShape(hf *harfbuzz.Font, text []rune, s, e int, dir harfbuzz.Direction, flags harfbuzz.ShappingOptions, props harfbuzz.SegmentProperties, feats []harfbuzz.Feature) []utbGlyph {
	b := harfbuzz.NewBuffer()
	b.AddRunes(text, s, e-s)
	b.Flags = flags
	b.Props = props
	b.Props.Direction = dir
	b.Shape(hf, feats)
	out := make([]utbGlyph, len(b.Info))
	for i, in := range b.Info {
		p := b.Pos[i]
		out[i] = utbGlyph{Cl: in.Cluster, Unsafe: in.Mask&harfbuzz.GlyphUnsafeToBreak != 0,
			Sig: fmt.Sprintf("%d@%d:%d,%d,%d,%d", in.Glyph, in.Cluster, p.XAdvance, p.YAdvance, p.XOffset, p.YOffset)}
	}
	return out
}

var utbScriptTexts = [][]rune{
	[]rune("office fluffy AVATAR To"),
	[]rune("سلام عليكم لله"),
	[]rune("क्षत्रिय किताब"),
	[]rune("שָׁלוֹם עוֹלָם"),
	[]rune("กำลัง น้ำ"),
	[]rune("မြန်မာ"),
	[]rune("ខ្មែរ"),
	[]rune("ffi ffl fj Ty"),
	[]rune("al·la L·L JÍ ij́"),
	[]rune("1a 2o No. 1/2 3/4"),
	[]rune("şi ţ fi îi"),
	[]rune("لا الله محمد"),
	[]rune("ᠮᠣᠩᠭᠣᠯ ᠪᠢᠴᠢᠭ"),
}

func utbObserve(enc *json.Encoder, id string, face *font.Face, hf *harfbuzz.Font, text []rune, dir harfbuzz.Direction, lang language.Language, feats []harfbuzz.Feature) {
	L := len(text)
	ev := map[string]interface{}{"id": id, "p": "ok", "n": L, "prog": 0, "native": true, "whole": []utbGlyph{}, "frags": []utbFrag{}, "text": toInts(text), "script": "", "letters": false, "digits": false, "marks": false, "decomp": false, "rtl": false, "joiners": false}
	for _, r := range text {
		if unicode.IsLetter(r) {
			ev["letters"] = true
		}
		if unicode.IsDigit(r) || (r >= 0x1F1E6 && r <= 0x1F1FF) {
			ev["digits"] = true
		}
		if r == 0x200C || r == 0x200D {
			ev["joiners"] = true
		}
		if unicode.IsMark(r) {
			ev["marks"] = true
		}
		if len(norm.NFD.PropertiesString(string(r)).Decomposition()) != 0 {
			ev["decomp"] = true
		}
	}
	res, site := withWatchdog(20*time.Second, func() {
		// native direction of the guessed script
		g := harfbuzz.NewBuffer()
		g.AddRunes(text, 0, L)
		g.GuessSegmentProperties()
		props := g.Props
		if lang != "" {
			props.Language = lang
		}
		ev["script"] = scriptName(props.Script)
		ev["native"] = props.Direction == dir || dir == harfbuzz.TopToBottom
		ev["rtl"] = props.Direction == harfbuzz.RightToLeft
		fwd := dir == harfbuzz.LeftToRight || dir == harfbuzz.TopToBottom
		if !fwd {
			ev["prog"] = 1
		}
		whole := utbShape(hf, text, 0, L, dir, harfbuzz.Bot|harfbuzz.Eot, props, feats)
		ev["whole"] = whole
		var cuts []int
		for i := 1; i < len(whole); i++ {
			if whole[i].Cl == whole[i-1].Cl {
				continue
			}
			if fwd && !whole[i].Unsafe {
				cuts = append(cuts, whole[i].Cl)
			} else if !fwd && !whole[i-1].Unsafe {
				cuts = append(cuts, whole[i-1].Cl)
			}
		}
		sort.Ints(cuts)
		bounds := []int{0}
		for _, c := range cuts {
			if c > bounds[len(bounds)-1] && c < L {
				bounds = append(bounds, c)
			}
		}
		bounds = append(bounds, L)
		frags := []utbFrag{}
		for i := 0; i+1 < len(bounds); i++ {
			s, e := bounds[i], bounds[i+1]
			var fl harfbuzz.ShappingOptions
			if s == 0 {
				fl |= harfbuzz.Bot
			}
			if e == L {
				fl |= harfbuzz.Eot
			}
			gl := utbShape(hf, text, s, e, dir, fl, props, feats)
			sigs := make([]string, len(gl))
			for k := range gl {
				sigs[k] = gl[k].Sig
			}
			frags = append(frags, utbFrag{S: s, E: e, Bot: s == 0, Eot: e == L, Sigs: sigs})
		}
		ev["frags"] = frags
	})
	if res != "ok" {
		ev["p"] = res
		ev["site"] = site
		ev["whole"] = []utbGlyph{}
		ev["frags"] = []utbFrag{}
	}
	enc.Encode(ev)
}

func utbMain(args []string) error {
	// utb corpus <maxFiles> <textsPerFace> <prefix> <shards>
	if len(args) < 5 {
		return fmt.Errorf("utb: usage: utb corpus <maxFiles> <texts> <prefix> <shards>")
	}
	max, _ := strconv.Atoi(args[1])
	per, _ := strconv.Atoi(args[2])
	shards, _ := strconv.Atoi(args[4])
	seed := seedFromEnv()
	sw := newShardWriter(args[3], shards)
	defer sw.close()
	var jobs []func(enc *json.Encoder)
	nf := 0
	for fi, cf := range sampleCorpus(max, seed+2) {
		faces, err, pan := loadFaces(cf.Data)
		if err != nil || pan != nil {
			continue
		}
		for xi, face := range faces {
			if len(face.Morx) != 0 || (face.GSUB.Lookups == nil && face.GPOS.Lookups == nil) {
				continue // the statement is about OpenType layout
			}
			face, id := face, fmt.Sprintf("%s#%d", cf.ID, xi)
			rng := rand.New(rand.NewSource(seed*97 + int64(fi)*13 + int64(xi)))
			own := ownRunes(face, 3000)
			if len(own) == 0 {
				continue
			}
			nf++
			jobs = append(jobs, func(enc *json.Encoder) {
				hf := harfbuzz.NewFont(face)
				var texts [][]rune
				for k := 0; k < per; k++ {
					L := 2 + rng.Intn(8)
					t := make([]rune, L)
					base := rng.Intn(len(own))
					for i := range t {
						j := base + rng.Intn(40) - 20
						if j < 0 {
							j = 0
						}
						if j >= len(own) {
							j = len(own) - 1
						}
						t[i] = own[j]
					}
					texts = append(texts, t)
				}
				// texts on which the face's own contextual rules fire (half of them: rules without nested lookup)
				for _, rt := range ruleTexts(face, rng, per, per*4000) {
					texts = append(texts, rt.Text)
					if len(own) > 0 && rng.Intn(2) == 0 {
						t := append([]rune{own[rng.Intn(len(own))]}, rt.Text...)
						texts = append(texts, append(t, own[rng.Intn(len(own))]))
					}
				}
				for _, t := range utbScriptTexts {
					// only texts the face covers at least partly
					cov := 0
					for _, r := range t {
						if _, ok := face.NominalGlyph(r); ok {
							cov++
						}
					}
					if cov*2 >= len(t) {
						texts = append(texts, t)
					}
				}
				for ti, t := range texts {
					for _, dir := range []harfbuzz.Direction{harfbuzz.LeftToRight, harfbuzz.RightToLeft, harfbuzz.TopToBottom, harfbuzz.BottomToTop} {
						if (dir == harfbuzz.TopToBottom || dir == harfbuzz.BottomToTop) && rng.Intn(3) != 0 {
							continue
						}
						utbObserve(enc, fmt.Sprintf("%s t%d dir%d", id, ti, dir), face, hf, t, dir, "", nil)
						// the same text under another language system and with optional features switched on
						if rng.Intn(2) == 0 {
							lang := utbLangs[rng.Intn(len(utbLangs))]
							var feats []harfbuzz.Feature
							fid := ""
							for k := rng.Intn(3); k > 0; k-- {
								tag := utbFeatureTags[rng.Intn(len(utbFeatureTags))]
								feats = append(feats, harfbuzz.Feature{Tag: ot.MustNewTag(tag), Value: 1, Start: harfbuzz.FeatureGlobalStart, End: harfbuzz.FeatureGlobalEnd})
								fid += "+" + tag
							}
							utbObserve(enc, fmt.Sprintf("%s t%d dir%d lang=%s feats=%s", id, ti, dir, lang, fid), face, hf, t, dir, lang, feats)
						}
					}
				}
			})
		}
	}
	runJobs(sw, jobs)
	fmt.Printf("{\"faces\": %d}\n", nf)
	return nil
}

func init() { cmds["utb"] = utbMain }
