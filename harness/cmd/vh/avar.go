package main

// Engine "avar" (C10, normalized coordinates): for every variable corpus face, records the raw fvar and
// avar tables (16-bit words) next to Font.NormalizeVariations for a set of design coordinate vectors
// (corners, defaults, outside the range, mid-points, seeded random values; all multiples of 1/64).
// TLC normalizes the coordinates itself (Avar.tla) and compares.

import (
	"bytes"
	"encoding/binary"
	"encoding/json"
	"fmt"
	"math/rand"
	"strconv"

	"github.com/go-text/typesetting/font"
	ot "github.com/go-text/typesetting/font/opentype"
)

func words16(raw []byte) []int {
	out := make([]int, 0, (len(raw)+1)/2)
	for i := 0; i < len(raw); i += 2 {
		w := int(raw[i]) << 8
		if i+1 < len(raw) {
			w |= int(raw[i+1])
		}
		out = append(out, w)
	}
	return out
}

func avarMain(args []string) error {
	// avar corpus <randomVectors> <prefix> <shards>
	if len(args) < 4 {
		return fmt.Errorf("avar: usage: avar corpus <vectors> <prefix> <shards>")
	}
	nrand, _ := strconv.Atoi(args[1])
	shards, _ := strconv.Atoi(args[3])
	seed := seedFromEnv()
	sw := newShardWriter(args[2], shards)
	defer sw.close()
	var jobs []func(enc *json.Encoder)
	nfaces := 0
	for fi, cf := range sampleCorpus(0, seed) {
		lds, err := ot.NewLoaders(bytes.NewReader(cf.Data))
		if err != nil {
			continue
		}
		for li, ld := range lds {
			fv, err := ld.RawTable(ot.MustNewTag("fvar"))
			if err != nil || len(fv) < 16 {
				continue
			}
			av, _ := ld.RawTable(ot.MustNewTag("avar"))
			ft, err := font.NewFont(ld)
			if err != nil {
				continue
			}
			na := int(binary.BigEndian.Uint16(fv[8:]))
			axOff, axSize := int(binary.BigEndian.Uint16(fv[4:])), int(binary.BigEndian.Uint16(fv[10:]))
			if na == 0 || axOff+na*axSize > len(fv) || axSize < 20 {
				continue
			}
			nfaces++
			id := fmt.Sprintf("%s#%d", cf.ID, li)
			rng := rand.New(rand.NewSource(seed*7 + int64(fi)*13 + int64(li)))
			jobs = append(jobs, func(enc *json.Encoder) {
				fx := func(o int) int { return int(int32(binary.BigEndian.Uint32(fv[o:]))) >> 10 } // 16.16 -> 1/64, floor
				var vecs [][]int
				for k := 0; k < 7+nrand; k++ {
					v := make([]int, na)
					for a := 0; a < na; a++ {
						o := axOff + a*axSize
						mn, df, mx := fx(o+4), fx(o+8), fx(o+12)
						switch k {
						case 0:
							v[a] = mn
						case 1:
							v[a] = df
						case 2:
							v[a] = mx
						case 3:
							v[a] = mn - 640
						case 4:
							v[a] = mx + 640
						case 5:
							v[a] = (mn + df) / 2
						case 6:
							v[a] = (df + mx) / 2
						default:
							if mx > mn {
								v[a] = mn - 64 + rng.Intn(mx-mn+129)
							} else {
								v[a] = mn
							}
						}
					}
					vecs = append(vecs, v)
				}
				for _, v := range vecs {
					coords := make([]float32, na)
					for a := range v {
						coords[a] = float32(v[a]) / 64
					}
					ev := map[string]interface{}{"font": id, "fvar": words16(fv), "avar": words16(av), "v": v, "got": []int{}, "p": "ok"}
					func() {
						defer func() {
							if r := recover(); r != nil {
								ev["p"] = "panic: " + fmt.Sprint(r)
							}
						}()
						got := []int{}
						for _, c := range ft.NormalizeVariations(coords) {
							got = append(got, int(c))
						}
						ev["got"] = got
					}()
					enc.Encode(ev)
				}
			})
		}
	}
	runJobs(sw, jobs)
	fmt.Printf("{\"faces\": %d}\n", nfaces)
	return nil
}

func init() { cmds["avar"] = avarMain }
