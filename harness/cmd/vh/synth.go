package main

// Synthetic minimal fonts (cmap + head + maxp) written with opentype.WriteTTF and loaded with
// font.ParseTTF. Used by the fontmap, cmap and reuse engines.

import (
	"bytes"
	"encoding/binary"
	"sort"

	"github.com/go-text/typesetting/font"
	ot "github.com/go-text/typesetting/font/opentype"
)

func minimalHead() []byte {
	head := make([]byte, 54)
	binary.BigEndian.PutUint32(head[0:], 0x00010000)
	binary.BigEndian.PutUint32(head[12:], 0x5F0F3CF5)
	binary.BigEndian.PutUint16(head[18:], 1000)
	return head
}

func minimalMaxp(numGlyphs int) []byte {
	maxp := make([]byte, 6)
	binary.BigEndian.PutUint32(maxp[0:], 0x00005000)
	binary.BigEndian.PutUint16(maxp[4:], uint16(numGlyphs))
	return maxp
}

// cmapFormat12 maps the given runes to glyphs 1..n
func cmapFormat12(runes []rune) []byte {
	n := len(runes)
	sub := make([]byte, 16+12*n)
	binary.BigEndian.PutUint16(sub[0:], 12)
	binary.BigEndian.PutUint32(sub[4:], uint32(len(sub)))
	binary.BigEndian.PutUint32(sub[12:], uint32(n))
	for i, r := range runes {
		binary.BigEndian.PutUint32(sub[16+12*i:], uint32(r))
		binary.BigEndian.PutUint32(sub[16+12*i+4:], uint32(r))
		binary.BigEndian.PutUint32(sub[16+12*i+8:], uint32(i+1))
	}
	return cmapWithSubtable(3, 10, sub)
}

func cmapWithSubtable(platform, encoding uint16, sub []byte) []byte {
	cmap := make([]byte, 12)
	binary.BigEndian.PutUint16(cmap[2:], 1)
	binary.BigEndian.PutUint16(cmap[4:], platform)
	binary.BigEndian.PutUint16(cmap[6:], encoding)
	binary.BigEndian.PutUint32(cmap[8:], 12)
	return append(cmap, sub...)
}

func fontFromCmap(cmap []byte, numGlyphs int) (*font.Font, error) {
	tables := []ot.Table{
		{Tag: ot.MustNewTag("cmap"), Content: cmap},
		{Tag: ot.MustNewTag("head"), Content: minimalHead()},
		{Tag: ot.MustNewTag("maxp"), Content: minimalMaxp(numGlyphs)},
	}
	data := ot.WriteTTF(tables)
	ld, err := ot.NewLoader(bytes.NewReader(data))
	if err != nil {
		return nil, err
	}
	return font.NewFont(ld)
}

// synthFace returns a face whose cmap covers exactly the given runes.
func synthFace(runes []rune) *font.Face {
	rs := append([]rune(nil), runes...)
	sort.Slice(rs, func(i, j int) bool { return rs[i] < rs[j] })
	ft, err := fontFromCmap(cmapFormat12(rs), len(rs)+1)
	if err != nil {
		panic(err)
	}
	return font.NewFace(ft)
}

// synthFontBytes returns the bytes of a minimal font whose cmap covers exactly the given runes.
func synthFontBytes(runes []rune) []byte {
	rs := append([]rune(nil), runes...)
	sort.Slice(rs, func(i, j int) bool { return rs[i] < rs[j] })
	tables := []ot.Table{
		{Tag: ot.MustNewTag("cmap"), Content: cmapFormat12(rs)},
		{Tag: ot.MustNewTag("head"), Content: minimalHead()},
		{Tag: ot.MustNewTag("maxp"), Content: minimalMaxp(len(rs) + 1)},
	}
	return ot.WriteTTF(tables)
}

// buildTTC assembles a TrueType collection from complete sfnt files (table offsets are made absolute).
func buildTTC(fonts [][]byte) []byte {
	n := len(fonts)
	hdr := make([]byte, 12+4*n)
	copy(hdr, "ttcf")
	binary.BigEndian.PutUint32(hdr[4:], 0x00010000)
	binary.BigEndian.PutUint32(hdr[8:], uint32(n))
	out := hdr
	for i, f := range fonts {
		base := len(out)
		binary.BigEndian.PutUint32(out[12+4*i:], uint32(base))
		blob := append([]byte(nil), f...)
		nt := int(binary.BigEndian.Uint16(blob[4:]))
		for t := 0; t < nt; t++ {
			p := 12 + 16*t + 8
			binary.BigEndian.PutUint32(blob[p:], binary.BigEndian.Uint32(blob[p:])+uint32(base))
		}
		out = append(out, blob...)
	}
	return out
}
