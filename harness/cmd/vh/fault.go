package main

// Engine "fault" (C09): applies TLC-generated fault plans (FaultModel.tla) to the bytes of corpus
// fonts and runs the load / query / shape lifecycle on each, in worker sub-processes so that a
// fatal error (stack overflow, out of memory) kills only the worker. TLC (FaultV.tla) decides.

import (
	"bufio"
	"bytes"
	"encoding/binary"
	"encoding/json"
	"fmt"
	"io"
	"math/rand"
	"os"
	"os/exec"
	"runtime"
	"runtime/debug"
	"strconv"
	"strings"
	"sync"
	"time"

	"github.com/go-text/typesetting/di"
	"github.com/go-text/typesetting/font"
	ot "github.com/go-text/typesetting/font/opentype"
	"github.com/go-text/typesetting/language"
	"github.com/go-text/typesetting/shaping"
	"golang.org/x/image/math/fixed"
)

type faultOne struct {
	K     string `json:"k"`
	Where string `json:"where"`
	Ti    int    `json:"ti"`
	Field string `json:"field"`
	V     string `json:"v"`
	W     int    `json:"w"`
	Idx   int    `json:"idx"`
	T1    int    `json:"t1"`
	T2    int    `json:"t2"`
	T3    int    `json:"t3"`
	Gi    int    `json:"gi"`
	Frac  int    `json:"frac"`
	Off   int    `json:"off"`
}

type dirEntry9 struct {
	tag              string
	off, length, pos int
}

func sfntDir(b []byte) []dirEntry9 {
	if len(b) < 12 {
		return nil
	}
	magic := binary.BigEndian.Uint32(b)
	if magic != 0x00010000 && magic != 0x4F54544F && magic != 0x74727565 {
		return nil
	}
	n := int(binary.BigEndian.Uint16(b[4:]))
	var out []dirEntry9
	for i := 0; i < n && 12+16*i+16 <= len(b); i++ {
		p := 12 + 16*i
		out = append(out, dirEntry9{string(b[p : p+4]), int(binary.BigEndian.Uint32(b[p+8:])), int(binary.BigEndian.Uint32(b[p+12:])), p})
	}
	return out
}

func symVal32(v string, size int, old uint32) uint32 {
	switch v {
	case "0":
		return 0
	case "1":
		return 1
	case "max":
		return 0xFFFFFFFF
	case "size-1":
		return uint32(size - 1)
	case "size":
		return uint32(size)
	case "size+1":
		return uint32(size + 1)
	case "big":
		return uint32(size + 4096)
	case "half":
		return uint32(size / 2)
	case "mid":
		return 0x7FFFFFFF
	case "hi":
		return 0x80000000
	}
	return old
}

func sym8(v string) byte {
	switch v {
	case "0":
		return 0
	case "5":
		return 5
	case "mid8":
		return 0x7F
	}
	return 0xFF
}

func symVal16(v string) uint16 {
	switch v {
	case "0":
		return 0
	case "1":
		return 1
	case "max":
		return 0xFFFF
	case "mid":
		return 0x7FFF
	}
	return 0x8000
}

// applyFaults returns the mutated bytes, or nil when the plan does not apply to this file.
func applyFaults(b []byte, plan []faultOne) []byte {
	dir := sfntDir(b)
	m := append([]byte(nil), b...)
	size := len(b)
	for _, f := range plan {
		var e *dirEntry9
		if f.Ti >= 1 {
			if f.Ti > len(dir) {
				return nil
			}
			e = &dir[f.Ti-1]
		}
		switch f.K {
		case "trunc":
			at := -1
			switch f.Where {
			case "tstart":
				at = e.off
			case "thdr":
				at = e.off + 2
			case "tmid":
				at = e.off + e.length/2
			case "tend":
				at = e.off + e.length - 1
			case "dirent":
				at = e.pos + 9
			case "empty":
				at = 0
			case "magic":
				at = 3
			case "hdr":
				at = 11
			case "quarter":
				at = size / 4
			case "half":
				at = size / 2
			case "last":
				at = size - 1
			}
			if at < 0 || at >= len(m) {
				return nil
			}
			m = m[:at]
		case "setdir":
			p := e.pos + 8
			if f.Field == "length" {
				p = e.pos + 12
			}
			if p+4 > len(m) {
				return nil
			}
			binary.BigEndian.PutUint32(m[p:], symVal32(f.V, size, 0))
		case "setword":
			wbytes := f.W / 8
			p := e.off + f.Idx*wbytes
			if f.Idx*wbytes+wbytes > e.length || p+wbytes > len(m) || p < 0 {
				return nil
			}
			if f.W == 16 {
				binary.BigEndian.PutUint16(m[p:], symVal16(f.V))
			} else {
				binary.BigEndian.PutUint32(m[p:], symVal32(f.V, size, 0))
			}
		case "swap":
			if f.T1 > len(dir) || f.T2 > len(dir) || f.T1 == f.T2 {
				return nil
			}
			a, c := dir[f.T1-1], dir[f.T2-1]
			if a.pos+16 > len(m) || c.pos+16 > len(m) {
				return nil
			}
			binary.BigEndian.PutUint32(m[a.pos+8:], uint32(c.off))
			binary.BigEndian.PutUint32(m[a.pos+12:], uint32(c.length))
			binary.BigEndian.PutUint32(m[c.pos+8:], uint32(a.off))
			binary.BigEndian.PutUint32(m[c.pos+12:], uint32(a.length))
		case "setbyte":
			p := e.off + e.length*f.Frac/8 + f.Off
			if p < e.off || p >= e.off+e.length || p >= len(m) {
				return nil
			}
			m[p] = sym8(f.V)
		case "glyphbyte":
			// the gi-th non-empty glyph record of 'glyf', located through 'loca'
			var glyf, loca, head *dirEntry9
			for i := range dir {
				switch dir[i].tag {
				case "glyf":
					glyf = &dir[i]
				case "loca":
					loca = &dir[i]
				case "head":
					head = &dir[i]
				}
			}
			if glyf == nil || loca == nil || head == nil || head.off+52 > len(b) || loca.off+loca.length > len(b) {
				return nil
			}
			long := binary.BigEndian.Uint16(b[head.off+50:]) != 0
			seen, pos := 0, -1
			for i := 0; ; i++ {
				var s0, s1 int
				if long {
					if 4*i+8 > loca.length {
						break
					}
					s0, s1 = int(binary.BigEndian.Uint32(b[loca.off+4*i:])), int(binary.BigEndian.Uint32(b[loca.off+4*i+4:]))
				} else {
					if 2*i+4 > loca.length {
						break
					}
					s0, s1 = 2*int(binary.BigEndian.Uint16(b[loca.off+2*i:])), 2*int(binary.BigEndian.Uint16(b[loca.off+2*i+2:]))
				}
				if s1 > s0 {
					seen++
					if seen == f.Gi {
						if f.Idx < s1-s0 {
							pos = glyf.off + s0 + f.Idx
						}
						break
					}
				}
			}
			if pos < 0 || pos >= len(m) {
				return nil
			}
			m[pos] = sym8(f.V)
		case "sbixdupe":
			var sb *dirEntry9
			for i := range dir {
				if dir[i].tag == "sbix" {
					sb = &dir[i]
				}
			}
			if sb == nil || sb.off+12 > len(b) {
				return nil
			}
			strike := sb.off + int(binary.BigEndian.Uint32(b[sb.off+8:]))
			if strike+4+4*6 > len(m) {
				return nil
			}
			// make room: glyphs 1..3 get 10-byte records carved at the start of the data of glyph 1 onwards
			// (the offsets of the following glyphs are pushed up so that the array stays monotone)
			{
				offAt := func(g int) int { return int(binary.BigEndian.Uint32(m[strike+4+4*g:])) }
				ng := 0
				for _, e := range dir {
					if e.tag == "maxp" && e.off+6 <= len(b) {
						ng = int(binary.BigEndian.Uint16(b[e.off+4:]))
					}
				}
				if ng < 4 || strike+4+4*(ng+1) > len(m) {
					return nil
				}
				x := offAt(1)
				if offAt(ng)-x < 30 {
					return nil
				}
				for g := 1; g <= ng; g++ {
					want := offAt(g)
					if g <= 4 {
						want = x + 10*(g-1)
					} else if want < x+30 {
						want = x + 30
					}
					binary.BigEndian.PutUint32(m[strike+4+4*g:], uint32(want))
				}
			}
			changed := false
			for g, target := range []int{f.T1, f.T2, f.T3} {
				gid := g + 1
				if target == 0 {
					continue
				}
				op := strike + 4 + 4*gid
				if op+8 > len(b) {
					return nil
				}
				d0, d1 := int(binary.BigEndian.Uint32(m[op:])), int(binary.BigEndian.Uint32(m[op+4:]))
				if d1-d0 < 10 || strike+d0+10 > len(m) {
					return nil
				}
				copy(m[strike+d0+4:], "dupe")
				binary.BigEndian.PutUint16(m[strike+d0+8:], uint16(target))
				changed = true
			}
			if !changed {
				return nil
			}
		case "numtables":
			if dir == nil || len(m) < 6 {
				return nil
			}
			v := uint16(0)
			switch f.V {
			case "1":
				v = 1
			case "count+1":
				v = uint16(len(dir) + 1)
			case "max":
				v = 0xFFFF
			}
			binary.BigEndian.PutUint16(m[4:], v)
		}
	}
	return m
}

// planTags names the tables a plan touches (for signatures)
func planTags(b []byte, plan []faultOne) []string {
	dir := sfntDir(b)
	out := []string{}
	for _, f := range plan {
		for _, ti := range []int{f.Ti, f.T1, f.T2} {
			if ti >= 1 && ti <= len(dir) {
				out = append(out, strings.TrimSpace(dir[ti-1].tag))
			}
		}
	}
	for _, f := range plan {
		switch f.K {
		case "glyphbyte":
			out = append(out, "glyf")
		case "sbixdupe":
			out = append(out, "sbix")
		}
	}
	if len(out) == 0 {
		out = append(out, "file")
	}
	return out
}

// measurePeak runs f and returns the growth of the live heap at its highest sampled point (KiB)
func measurePeak(f func()) int {
	// HeapAlloc counts unswept garbage too: with the default GC pacing the heap may double before a
	// collection, and the worker's own data (the corpus) is a large base. Collect first and keep the
	// collector tight while measuring, so that what is sampled is close to the live heap.
	old := debug.SetGCPercent(5)
	defer debug.SetGCPercent(old)
	runtime.GC()
	var m runtime.MemStats
	runtime.ReadMemStats(&m)
	base := m.HeapAlloc
	peak := base
	stop := make(chan struct{})
	done := make(chan struct{})
	go func() {
		defer close(done)
		t := time.NewTicker(time.Millisecond)
		defer t.Stop()
		var s runtime.MemStats
		for {
			select {
			case <-stop:
				return
			case <-t.C:
				runtime.ReadMemStats(&s)
				if s.HeapAlloc > peak {
					peak = s.HeapAlloc
				}
			}
		}
	}()
	f()
	runtime.ReadMemStats(&m)
	close(stop)
	<-done
	if m.HeapAlloc > peak {
		peak = m.HeapAlloc
	}
	// the largest single object still counts even if it was freed between two samples
	if d := m.HeapSys; d > 0 && false {
		_ = d
	}
	return int((peak - base) / 1024)
}

type lcStep struct {
	Name string `json:"name"`
	Res  string `json:"res"`
}

type rawObs struct {
	Off int    `json:"off"`
	Len int    `json:"len"`
	Res string `json:"res"`
	Got int    `json:"got"`
}

// guarded runs f under recover and a watchdog and classifies the outcome
func guarded(f func() error) string {
	res, site := withWatchdog(5*time.Second, func() {
		if err := f(); err != nil {
			panic(errResult{err})
		}
	})
	switch res {
	case "ok":
		return "ok"
	case "timeout":
		return "timeout"
	}
	if strings.Contains(site, "errResult") || strings.HasSuffix(site, ": {}") {
		return "err"
	}
	return "panic:" + site
}

type errResult struct{ err error }

func lifecycle(data []byte) (steps []lcStep, raw []rawObs) {
	steps = []lcStep{}
	raw = []rawObs{}
	var faces []*font.Face
	var openErr error
	res, site := withWatchdog(10*time.Second, func() { faces, openErr = font.ParseTTC(bytes.NewReader(data)) })
	switch {
	case res == "timeout":
		steps = append(steps, lcStep{"Open", "timeout"})
		return
	case res == "panic":
		steps = append(steps, lcStep{"Open", "panic:" + site})
		return
	case openErr != nil:
		steps = append(steps, lcStep{"Open", "err"})
		return
	}
	steps = append(steps, lcStep{"Open", "ok"})
	// RawTable through the loader for plain sfnt files
	if dir := sfntDir(data); dir != nil {
		func() {
			defer func() { recover() }()
			ld, err := ot.NewLoader(bytes.NewReader(data))
			if err != nil {
				return
			}
			seen := map[string]bool{}
			for _, e := range dir {
				if seen[e.tag] {
					continue // the first entry of a duplicated tag wins
				}
				seen[e.tag] = true
				// values beyond 2^31-1 are clamped (TLC integers are 32 bits; the file is far smaller)
				clamp := func(v int) int {
					if v > 0x7FFFFFFF {
						return 0x7FFFFFFF
					}
					return v
				}
				o := rawObs{Off: clamp(e.off), Len: clamp(e.length)}
				r, s := withWatchdog(5*time.Second, func() {
					b, err := ld.RawTable(ot.Tag(binary.BigEndian.Uint32([]byte(e.tag))))
					if err != nil {
						o.Res = "err"
					} else {
						o.Res, o.Got = "ok", len(b)
					}
				})
				if r != "ok" {
					o.Res = r + ":" + s
				}
				if e.off < 0 || e.length < 0 {
					continue
				}
				raw = append(raw, o)
			}
		}()
	}
	q := func(name string, f func()) {
		r, s := withWatchdog(5*time.Second, f)
		switch r {
		case "ok":
			steps = append(steps, lcStep{name, "ok"})
		case "timeout":
			steps = append(steps, lcStep{name, "timeout"})
		default:
			steps = append(steps, lcStep{name, "panic:" + s})
		}
	}
	for _, f := range faces {
		f := f
		var rs []rune
		q("cmap", func() {
			it := f.Cmap.Iter()
			for n := 0; it.Next() && n < 50; n++ {
				r, _ := it.Char()
				rs = append(rs, r)
			}
			for _, r := range []rune{'a', ' ', 0x627, 0x4e00, 0xFFFF, 0x10FFFF} {
				f.NominalGlyph(r)
			}
			f.VariationGlyph('a', 0xFE00)
		})
		q("advances", func() {
			for g := 0; g < 40; g++ {
				f.HorizontalAdvance(font.GID(g))
				f.VerticalAdvance(font.GID(g))
				f.GlyphVOrigin(font.GID(g))
			}
			f.HorizontalAdvance(0xFFFF)
		})
		q("extents", func() {
			for g := 0; g < 40; g++ {
				f.GlyphExtents(font.GID(g))
			}
			f.GlyphExtents(0xFFFF)
		})
		q("outlines", func() {
			for g := 0; g < 40; g++ {
				f.GlyphData(font.GID(g))
			}
			f.GlyphData(0xFFFF)
		})
		q("names", func() {
			for g := 0; g < 20; g++ {
				f.GlyphName(font.GID(g))
			}
			f.Describe()
		})
		q("metrics", func() {
			f.FontHExtents()
			f.FontVExtents()
			f.LineMetric(font.XHeight)
			f.LineMetric(font.UnderlinePosition)
			f.Upem()
		})
		q("variations", func() {
			f.SetVariations([]font.Variation{{Tag: 0x77676874, Value: 700}, {Tag: 0x77647468, Value: 80}})
			for g := 0; g < 10; g++ {
				f.GlyphExtents(font.GID(g))
				f.HorizontalAdvance(font.GID(g))
				f.GlyphData(font.GID(g))
			}
			f.SetPpem(12, 12)
			for g := 0; g < 10; g++ {
				f.GlyphData(font.GID(g))
				f.GlyphExtents(font.GID(g))
			}
		})
		q("shape", func() {
			var sh shaping.HarfbuzzShaper
			text := append([]rune("ab fi"), rs...)
			if len(text) > 24 {
				text = text[:24]
			}
			sh.Shape(shaping.Input{Text: text, RunEnd: len(text), Face: f, Size: fixed.I(12), Direction: di.DirectionLTR, Script: language.Latin})
			sh.Shape(shaping.Input{Text: text, RunEnd: len(text), Face: f, Size: fixed.I(12), Direction: di.DirectionRTL, Script: language.Arabic})
			sh.Shape(shaping.Input{Text: text, RunEnd: len(text), Face: f, Size: fixed.I(12), Direction: di.DirectionTTB, Script: language.Han})
		})
		if len(faces) > 4 {
			break // collections: the first face is enough
		}
	}
	return
}

// ---- worker: vh fault worker <fileID> <planfile> <from>
func faultWorker(args []string) error {
	debug.SetMaxStack(64 << 20)
	debug.SetGCPercent(50)
	id := args[0]
	from, _ := strconv.Atoi(args[2])
	var data []byte
	for _, cf := range corpusFiles() {
		if cf.ID == id {
			data = cf.Data
		}
	}
	if data == nil {
		return fmt.Errorf("unknown corpus file %s", id)
	}
	pf, err := os.Open(args[1])
	if err != nil {
		return err
	}
	defer pf.Close()
	sc := bufio.NewScanner(pf)
	sc.Buffer(make([]byte, 1<<20), 1<<24)
	w := bufio.NewWriter(os.Stdout)
	enc := json.NewEncoder(w)
	k := -1
	for sc.Scan() {
		k++
		if k < from {
			continue
		}
		var plan []faultOne
		if err := json.Unmarshal(sc.Bytes(), &plan); err != nil {
			return err
		}
		m := applyFaults(data, plan)
		if m == nil {
			continue
		}
		fmt.Fprintf(w, "BEGIN %d\n", k)
		w.Flush()
		var steps []lcStep
		var raw []rawObs
		peak := measurePeak(func() { steps, raw = lifecycle(m) })
		enc.Encode(map[string]interface{}{"font": id, "k": k, "plan": plan, "size": len(m), "steps": steps, "raw": raw, "allockb": peak, "tags": planTags(data, plan)})
		w.Flush()
	}
	fmt.Fprintf(w, "DONE\n")
	w.Flush()
	return nil
}

// ---- parent: vh fault run <maxFiles> <plansPerFont> <planfile> <prefix> <shards>
func faultRun(args []string) error {
	maxFiles, _ := strconv.Atoi(args[0])
	per, _ := strconv.Atoi(args[1])
	planfile := args[2]
	shards, _ := strconv.Atoi(args[4])
	seed := seedFromEnv()
	// sample the plan list once per run (seeded): a sub-list written to a file the workers read
	all, err := os.ReadFile(planfile)
	if err != nil {
		return err
	}
	lines := strings.Split(strings.TrimSpace(string(all)), "\n")
	rng := rand.New(rand.NewSource(seed*41 + 3))
	sw := newShardWriter(args[3], shards)
	defer sw.close()
	files := sampleCorpus(maxFiles, seed+3)
	// format-aware plans are few and apply to few files: never sampled away
	var always []string
	for _, l := range lines {
		if strings.Contains(l, `"sbixdupe"`) {
			always = append(always, l)
		}
	}
	if maxFiles > 0 {
		have := map[string]bool{}
		for _, cf := range files {
			have[cf.ID] = true
		}
		for _, cf := range corpusFiles() {
			n := len(cf.Data)
			if n > 4096 {
				n = 4096
			}
			if !have[cf.ID] && bytes.Contains(cf.Data[:n], []byte("sbix")) {
				files = append(files, cf)
			}
		}
	}
	self, _ := os.Executable()
	var mu sync.Mutex
	total, crashes := 0, 0
	var wg sync.WaitGroup
	sem := make(chan struct{}, shards)
	for fi, cf := range files {
		// per-font plan sample
		sub := lines
		if per > 0 && per < len(lines) {
			perm := rng.Perm(len(lines))[:per]
			sub = make([]string, 0, per)
			for _, i := range perm {
				if !strings.Contains(lines[i], `"sbixdupe"`) {
					sub = append(sub, lines[i])
				}
			}
			sub = append(sub, always...)
		}
		pf := fmt.Sprintf("%s.plans.%d", args[3], fi)
		os.WriteFile(pf, []byte(strings.Join(sub, "\n")+"\n"), 0o644)
		wg.Add(1)
		sem <- struct{}{}
		go func(fi int, id, pf string, nplans int) {
			defer wg.Done()
			defer func() { <-sem }()
			defer os.Remove(pf)
			from := 0
			for from < nplans {
				cmd := exec.Command("sh", "-c", fmt.Sprintf("ulimit -v 8000000; exec %q fault worker %q %q %d", self, id, pf, from))
				cmd.Env = append(os.Environ(), "GOMAXPROCS=2", "GOMEMLIMIT=3GiB")
				out, _ := cmd.StdoutPipe()
				var stderr bytes.Buffer
				cmd.Stderr = &stderr
				if err := cmd.Start(); err != nil {
					return
				}
				rd := bufio.NewReader(out)
				inflight, done := -1, false
				for {
					line, err := rd.ReadString('\n')
					if strings.HasPrefix(line, "BEGIN ") {
						inflight, _ = strconv.Atoi(strings.TrimSpace(line[6:]))
					} else if strings.HasPrefix(line, "DONE") {
						done = true
					} else if strings.HasPrefix(line, "{") {
						mu.Lock()
						sw.files[fi%shards].WriteString(line)
						total++
						mu.Unlock()
						inflight = -1
					}
					if err != nil {
						break
					}
				}
				io.Copy(io.Discard, out)
				werr := cmd.Wait()
				if done {
					break
				}
				// the worker died: record a crash for the plan in flight and resume after it
				kind := "signal"
				es := stderr.String()
				switch {
				case strings.Contains(es, "stack overflow") || strings.Contains(es, "goroutine stack exceeds"):
					kind = "stack-overflow"
				case strings.Contains(es, "out of memory") || strings.Contains(es, "cannot allocate memory"):
					kind = "oom"
				}
				site := ""
				for _, l := range strings.Split(es, "\n") {
					l = strings.TrimSpace(l)
					if strings.HasPrefix(l, "github.com/go-text/typesetting/") {
						if i := strings.LastIndex(l, "("); i > 0 {
							l = l[:i]
						}
						site = strings.TrimPrefix(l, "github.com/go-text/typesetting/")
						break
					}
				}
				if inflight < 0 {
					// died outside a plan (start-up): give up on this font
					_ = werr
					break
				}
				var plan interface{}
				json.Unmarshal([]byte(strings.Split(string(mustRead(pf)), "\n")[inflight]), &plan)
				ev, _ := json.Marshal(map[string]interface{}{"font": id, "k": inflight, "plan": plan, "size": 0, "steps": []lcStep{{"Open", "crash:" + kind + ":" + site}}, "raw": []rawObs{}, "allockb": 0, "tags": crashTags(id, pf, inflight)})
				mu.Lock()
				sw.files[fi%shards].WriteString(string(ev) + "\n")
				total++
				crashes++
				mu.Unlock()
				from = inflight + 1
			}
		}(fi, cf.ID, pf, len(sub))
	}
	wg.Wait()
	fmt.Printf("{\"files\": %d, \"executions\": %d, \"worker_crashes\": %d, \"plans\": %d}\n", len(files), total, crashes, len(lines))
	return nil
}

func crashTags(id, pf string, k int) []string {
	var plan []faultOne
	lines := strings.Split(string(mustRead(pf)), "\n")
	if k < 0 || k >= len(lines) || json.Unmarshal([]byte(lines[k]), &plan) != nil {
		return []string{"file"}
	}
	for _, cf := range corpusFiles() {
		if cf.ID == id {
			return planTags(cf.Data, plan)
		}
	}
	return []string{"file"}
}

func mustRead(p string) []byte {
	b, _ := os.ReadFile(p)
	return b
}

func faultMain(args []string) error {
	if len(args) < 1 {
		return fmt.Errorf("fault: missing sub-command")
	}
	switch args[0] {
	case "worker":
		return faultWorker(args[1:])
	case "run":
		return faultRun(args[1:])
	case "one":
		// fault one <fileID> <plan json>: a single execution in this process (used to re-check timeouts in isolation)
		var plan []faultOne
		if err := json.Unmarshal([]byte(args[2]), &plan); err != nil {
			return err
		}
		for _, cf := range corpusFiles() {
			if cf.ID == args[1] {
				debug.SetMaxStack(64 << 20)
				m := applyFaults(cf.Data, plan)
				if m == nil {
					return fmt.Errorf("plan does not apply")
				}
				t0 := time.Now()
				var steps []lcStep
				var raw []rawObs
				peak := measurePeak(func() { steps, raw = lifecycle(m) })
				return json.NewEncoder(os.Stdout).Encode(map[string]interface{}{"font": cf.ID, "plan": plan, "size": len(m), "steps": steps, "raw": raw,
					"allockb": peak, "ms": time.Since(t0).Milliseconds(), "tags": planTags(cf.Data, plan)})
			}
		}
		return fmt.Errorf("unknown file")
	}
	return fmt.Errorf("fault: unknown sub-command")
}

func init() { cmds["fault"] = faultMain }
