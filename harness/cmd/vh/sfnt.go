package main

// Engine "sfnt" (C19): calls opentype.WriteTTF on enumerated / random table lists whose input
// slices carry sentinel-filled spare capacity, and records the written bytes, what the real
// Loader reads back, and the before/after images of the inputs. TLC (SfntV.tla) decides.

import (
	"bytes"
	"encoding/json"
	"fmt"
	"math/rand"
	"strconv"

	ot "github.com/go-text/typesetting/font/opentype"
)

type sfTable struct {
	Tag   [4]int `json:"tag"`
	Bytes []int  `json:"bytes"`
}

type sfRead struct {
	Err   string `json:"err"`
	Bytes []int  `json:"bytes"`
}

type sfEvent struct {
	Tables  []sfTable `json:"tables"`
	Out     []int     `json:"out"`
	Loaderr string    `json:"loaderr"`
	Tags    [][4]int  `json:"tags"`
	Rb      []sfRead  `json:"rb"`
	Before  [][]int   `json:"before"`
	After   [][]int   `json:"after"`
	P       string    `json:"p"`
	Spare   []int     `json:"spare"`
}

func bytesToInts(b []byte) []int {
	o := make([]int, len(b))
	for i, v := range b {
		o[i] = int(v)
	}
	return o
}

func tagInts(t ot.Tag) [4]int {
	return [4]int{int(t >> 24), int(t>>16) & 0xFF, int(t>>8) & 0xFF, int(t) & 0xFF}
}

// sfObserve writes the tables (content[i] with spare[i] bytes of spare capacity filled with 0xA5)
func sfObserve(enc *json.Encoder, tags []ot.Tag, content [][]byte, spare []int) {
	ev := sfEvent{P: "ok", Tags: [][4]int{}, Rb: []sfRead{}, Spare: spare, Tables: []sfTable{}, Out: []int{}, Before: [][]int{}, After: [][]int{}}
	tables := make([]ot.Table, len(tags))
	full := make([][]byte, len(tags))
	for i := range tags {
		buf := make([]byte, len(content[i])+spare[i])
		copy(buf, content[i])
		for j := len(content[i]); j < len(buf); j++ {
			buf[j] = 0xA5
		}
		full[i] = buf
		tables[i] = ot.Table{Tag: tags[i], Content: buf[:len(content[i])]}
		ev.Tables = append(ev.Tables, sfTable{Tag: tagInts(tags[i]), Bytes: bytesToInts(content[i])})
		ev.Before = append(ev.Before, bytesToInts(buf))
	}
	// Two writes from the SAME []Table value: after the first, every table content is edited in place (same
	// backing array, same length), so anything WriteTTF remembered about the tables between calls is stale.
	for round := 0; round < 2; round++ {
		if round == 1 {
			changed := false
			for i := range tables {
				c := tables[i].Content
				for a, b := 0, len(c)-1; a < b; a, b = a+1, b-1 { // reverse the bytes: another word sum unless palindromic
					c[a], c[b] = c[b], c[a]
				}
				if len(c) > 0 {
					c[0] ^= 0x5A
					changed = true
				}
			}
			if !changed {
				break
			}
			ev = sfEvent{P: "ok", Tags: [][4]int{}, Rb: []sfRead{}, Spare: spare, Tables: []sfTable{}, Out: []int{}, Before: [][]int{}, After: [][]int{}}
			for i := range tables {
				ev.Tables = append(ev.Tables, sfTable{Tag: tagInts(tags[i]), Bytes: bytesToInts(tables[i].Content)})
				ev.Before = append(ev.Before, bytesToInts(full[i]))
			}
		}
		var out []byte
		func() {
			defer func() {
				if r := recover(); r != nil {
					ev.P = "panic"
				}
			}()
			out = ot.WriteTTF(tables)
		}()
		for i := range full {
			ev.After = append(ev.After, bytesToInts(full[i]))
		}
		if ev.P == "ok" {
			ev.Out = bytesToInts(out)
			func() {
				defer func() {
					if r := recover(); r != nil {
						ev.Loaderr = "panic: " + fmt.Sprint(r)
					}
				}()
				ld, err := ot.NewLoader(bytes.NewReader(out))
				if err != nil {
					ev.Loaderr = err.Error()
					return
				}
				for _, t := range ld.Tables() {
					ev.Tags = append(ev.Tags, tagInts(t))
				}
				for _, t := range tags {
					b, err := ld.RawTable(t)
					if err != nil {
						ev.Rb = append(ev.Rb, sfRead{Err: err.Error(), Bytes: []int{}})
					} else {
						ev.Rb = append(ev.Rb, sfRead{Bytes: bytesToInts(b)})
					}
				}
			}()
		}
		enc.Encode(ev)
	}
}

var sfTags = []ot.Tag{ot.MustNewTag("OS/2"), ot.MustNewTag("cmap"), ot.MustNewTag("glyf"), ot.MustNewTag("head"), ot.MustNewTag("zzzz"),
	ot.MustNewTag("AAAA"), ot.MustNewTag("GSUB"), ot.MustNewTag("loca"), ot.MustNewTag("maxp"), ot.MustNewTag("name")}

func sortedTags(n int, rng *rand.Rand) []ot.Tag {
	// n distinct tags, sorted
	var pool []ot.Tag
	if n <= len(sfTags) {
		perm := rng.Perm(len(sfTags))[:n]
		for _, i := range perm {
			pool = append(pool, sfTags[i])
		}
	} else {
		seen := map[ot.Tag]bool{}
		for len(pool) < n {
			t := ot.Tag(0x41414141 + uint32(rng.Intn(26))<<24&0x1F000000 + uint32(rng.Intn(1<<20)))
			t = ot.NewTag(byte('A'+rng.Intn(26)), byte('a'+rng.Intn(26)), byte('a'+rng.Intn(26)), byte('0'+rng.Intn(10)))
			if !seen[t] {
				seen[t] = true
				pool = append(pool, t)
			}
		}
	}
	for i := 1; i < len(pool); i++ {
		for j := i; j > 0 && pool[j] < pool[j-1]; j-- {
			pool[j], pool[j-1] = pool[j-1], pool[j]
		}
	}
	return pool
}

func sfMain(args []string) error {
	if len(args) < 1 {
		return fmt.Errorf("sfnt: missing sub-command")
	}
	seed := seedFromEnv()
	rng := rand.New(rand.NewSource(seed*2741 + 1))
	vals := []byte{0, 1, 0xFF, 0x80, 0x7F}
	fill := func(n int) []byte {
		b := make([]byte, n)
		for i := range b {
			b[i] = vals[rng.Intn(len(vals))]
		}
		return b
	}
	switch args[0] {
	case "enum":
		// sfnt enum <maxTables> <maxLen> <prefix> <shards>: every length vector in 0..maxLen
		maxT, _ := strconv.Atoi(args[1])
		maxL, _ := strconv.Atoi(args[2])
		shards, _ := strconv.Atoi(args[4])
		sw := newShardWriter(args[3], shards)
		defer sw.close()
		n := 0
		for k := 0; k <= maxT; k++ {
			lens := make([]int, k)
			for {
				tags := sortedTags(k, rng)
				content := make([][]byte, k)
				spare := make([]int, k)
				for i := range lens {
					content[i] = fill(lens[i])
					spare[i] = []int{0, 8, 3, 8}[rng.Intn(4)]
				}
				sfObserve(sw.enc(), tags, content, spare)
				n++
				i := k - 1
				for i >= 0 {
					lens[i]++
					if lens[i] <= maxL {
						break
					}
					lens[i] = 0
					i--
				}
				if i < 0 {
					break
				}
			}
		}
		fmt.Printf("{\"files\": %d}\n", n)
		return nil
	case "rand":
		// sfnt rand <count> <maxTables> <maxLen> <prefix> <shards>
		count, _ := strconv.Atoi(args[1])
		maxT, _ := strconv.Atoi(args[2])
		maxL, _ := strconv.Atoi(args[3])
		shards, _ := strconv.Atoi(args[5])
		sw := newShardWriter(args[4], shards)
		defer sw.close()
		for c := 0; c < count; c++ {
			k := rng.Intn(maxT + 1)
			tags := sortedTags(k, rng)
			content := make([][]byte, k)
			spare := make([]int, k)
			for i := 0; i < k; i++ {
				content[i] = fill(rng.Intn(maxL + 1))
				spare[i] = rng.Intn(9)
			}
			sfObserve(sw.enc(), tags, content, spare)
		}
		fmt.Printf("{\"files\": %d}\n", count)
		return nil
	}
	return fmt.Errorf("sfnt: unknown sub-command")
}

func init() { cmds["sfnt"] = sfMain }
