package main

// Corpus of real fonts shipped with typesetting-utils (a dependency of the repository).

import (
	"bytes"
	"io/fs"
	"math/rand"
	"sort"
	"strings"

	tdh "github.com/go-text/typesetting-utils/harfbuzz"
	td "github.com/go-text/typesetting-utils/opentype"
	"github.com/go-text/typesetting/font"
)

type corpusFile struct {
	ID   string // "ot:path" or "hb:path"
	Data []byte
}

var fontExts = []string{".ttf", ".otf", ".ttc", ".woff", ".dfont", ".otb", ".otc"}

func isFontPath(p string) bool {
	lp := strings.ToLower(p)
	for _, e := range fontExts {
		if strings.HasSuffix(lp, e) {
			return true
		}
	}
	return false
}

// corpusFiles lists all font files of the corpus in a stable order.
func corpusFiles() []corpusFile {
	var out []corpusFile
	walk := func(fsys fs.FS, prefix string) {
		fs.WalkDir(fsys, ".", func(path string, d fs.DirEntry, err error) error {
			if err != nil || d.IsDir() || !isFontPath(path) {
				return nil
			}
			b, err := fs.ReadFile(fsys, path)
			if err != nil {
				return nil
			}
			out = append(out, corpusFile{ID: prefix + path, Data: b})
			return nil
		})
	}
	walk(td.Files, "ot:")
	walk(tdh.Files, "hb:")
	sort.Slice(out, func(i, j int) bool { return out[i].ID < out[j].ID })
	return out
}

// sampleCorpus returns max files chosen by seed (all if max <= 0 or max >= len).
func sampleCorpus(max int, seed int64) []corpusFile {
	all := corpusFiles()
	if max <= 0 || max >= len(all) {
		return all
	}
	rng := rand.New(rand.NewSource(seed*7 + 3))
	perm := rng.Perm(len(all))[:max]
	sort.Ints(perm)
	out := make([]corpusFile, 0, max)
	for _, i := range perm {
		out = append(out, all[i])
	}
	return out
}

// loadFaces parses all faces of a file, recovering from panics (reported as error).
func loadFaces(data []byte) (faces []*font.Face, err error, panicked interface{}) {
	defer func() {
		if r := recover(); r != nil {
			panicked = r
		}
	}()
	faces, err = font.ParseTTC(bytes.NewReader(data))
	return
}
