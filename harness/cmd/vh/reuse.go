package main

// Engine "reuse" (C13): executes TLC-generated operation histories on ONE re-used object and
// every operation also on freshly constructed objects in the same logical configuration;
// records result digests (d, fd) and re-digests earlier results after every step.
// TLC (ReuseV.tla) decides SameAsFresh / Stable.

import (
	"bufio"
	"bytes"
	"crypto/sha1"
	"encoding/hex"
	"encoding/json"
	"fmt"
	"os"
	"strconv"

	tdh "github.com/go-text/typesetting-utils/harfbuzz"
	td "github.com/go-text/typesetting-utils/opentype"
	"github.com/go-text/typesetting/di"
	"github.com/go-text/typesetting/font"
	ot "github.com/go-text/typesetting/font/opentype"
	"github.com/go-text/typesetting/font/opentype/tables"
	"github.com/go-text/typesetting/language"
	"github.com/go-text/typesetting/segmenter"
	"github.com/go-text/typesetting/shaping"
	"golang.org/x/image/math/fixed"
)

type reuseOp struct {
	Op   string `json:"op"`
	Face string `json:"face"`
	Text int    `json:"text"`
	K    int    `json:"k"`
	W    int    `json:"w"`
	G    int    `json:"g"`
	Para int    `json:"para"`
	Feat int    `json:"feat"`
}

func digestOf(v ...interface{}) string {
	h := sha1.New()
	fmt.Fprint(h, v...)
	return hex.EncodeToString(h.Sum(nil))[:16]
}

func outputDigest(o *shaping.Output) string {
	var b bytes.Buffer
	fmt.Fprintf(&b, "%v|%v|%v|%v|%v|%v|", o.Advance, o.Size, o.Runes, o.Direction, o.LineBounds, o.GlyphBounds)
	for i := range o.Glyphs {
		g := o.Glyphs[i]
		ls, le := shaping.VerifLetterSpacing(&g)
		fmt.Fprintf(&b, "%d,%d,%d,%d,%d,%d,%d,%d,%d,%d,%d,%d,%d,%d,%d;", g.GlyphID, g.ClusterIndex, g.RuneCount, g.GlyphCount, g.XAdvance, g.YAdvance, g.XOffset, g.YOffset,
			g.Width, g.Height, g.XBearing, g.YBearing, g.Mask, ls, le)
	}
	return digestOf(b.String())
}

func lineDigest(l shaping.Line) string {
	var b bytes.Buffer
	for i := range l {
		fmt.Fprintf(&b, "[%d:%s]", l[i].VisualIndex, outputDigest(&l[i]))
	}
	return digestOf(b.String())
}

var reuseFonts struct {
	varFont, staticFont, altFont *font.Font
}

func loadReuseFonts() error {
	load := func(p string) (*font.Font, error) {
		b, err := td.Files.ReadFile(p)
		if err != nil {
			return nil, err
		}
		f, err := font.ParseTTF(bytes.NewReader(b))
		if err != nil {
			return nil, err
		}
		return f.Font, nil
	}
	var err error
	if reuseFonts.varFont, err = load("common/Commissioner-VF.ttf"); err != nil {
		return err
	}
	if reuseFonts.staticFont, err = load("common/Roboto-BoldItalic.ttf"); err != nil {
		return err
	}
	// a font with stylistic alternates (salt) selecting different glyphs for feature values 1 and 2
	b, err := tdh.Files.ReadFile("harfbuzz_reference/in-house/fonts/3f24aff8b768e586162e9b9d03b15c36508dd2ae.ttf")
	if err != nil {
		return err
	}
	f, err := font.ParseTTF(bytes.NewReader(b))
	if err != nil {
		return err
	}
	reuseFonts.altFont = f.Font
	return nil
}

var wghtTag = ot.MustNewTag("wght")

func newVarFace(w int) *font.Face {
	f := font.NewFace(reuseFonts.varFont)
	if w != 0 {
		f.SetVariations([]font.Variation{{Tag: wghtTag, Value: float32(w)}})
	}
	return f
}

var reuseTexts = map[int][]rune{1: []rune("Hello fi office"), 2: []rune("AVATAR Ta. f"), 3: []rune("صلطخلطج")}

func shapeInput(face *font.Face, t int, feat int) shaping.Input {
	text := reuseTexts[t]
	in := shaping.Input{Text: text, RunStart: 0, RunEnd: len(text), Face: face, Size: fixed.I(16), Direction: di.DirectionLTR, Script: language.Latin, Language: "en"}
	if t == 3 {
		in.Direction, in.Script, in.Language = di.DirectionRTL, language.Arabic, "ar"
	}
	switch feat {
	case 0:
	case 1, 2: // two non-zero values of one tag
		in.FontFeatures = []shaping.FontFeature{{Tag: ot.MustNewTag("salt"), Value: uint32(feat)}}
	case 3: // lists of the same length: other value, other tag
		in.FontFeatures = []shaping.FontFeature{{Tag: ot.MustNewTag("kern"), Value: 0}}
	case 4:
		in.FontFeatures = []shaping.FontFeature{{Tag: ot.MustNewTag("kern"), Value: 1}}
	case 5:
		in.FontFeatures = []shaping.FontFeature{{Tag: ot.MustNewTag("liga"), Value: 0}}
	}
	return in
}

type recEnc struct {
	enc *json.Encoder
	t   int
}

func (r recEnc) op(op string, d, fd, p string) { r.op2(op, d, fd, p, d) }

// rd = digest of the part of the result that is retained and re-digested later
func (r recEnc) op2(op string, d, fd, p, rd string) {
	r.enc.Encode(map[string]interface{}{"t": r.t, "ev": "Op", "op": op, "d": d, "fd": fd, "p": p, "rd": rd})
}
func (r recEnc) recheck(step int, d string) {
	r.enc.Encode(map[string]interface{}{"t": r.t, "ev": "Recheck", "step": step, "d": d})
}

func guard(f func() string) (d string, p string) {
	p = "ok"
	defer func() {
		if r := recover(); r != nil {
			d, p = "panic", "panic: "+fmt.Sprint(r)
		}
	}()
	return f(), p
}

// ---------------------------------------------------------------- shaper
func reuseShaper(r recEnc, ops []reuseOp) {
	var sh shaping.HarfbuzzShaper
	v1w := 0
	faces := map[string]*font.Face{"V1": newVarFace(0), "V2": newVarFace(900), "S1": font.NewFace(reuseFonts.staticFont), "A1": font.NewFace(reuseFonts.altFont)}
	type kept struct {
		step int
		out  shaping.Output
	}
	var outs []kept
	for i, op := range ops {
		switch op.Op {
		case "Shape":
			var out shaping.Output
			d, p := guard(func() string { out = sh.Shape(shapeInput(faces[op.Face], op.Text, op.Feat)); return outputDigest(&out) })
			fd, _ := guard(func() string {
				var fresh shaping.HarfbuzzShaper
				var ff *font.Face
				switch op.Face {
				case "V1":
					ff = newVarFace(v1w)
				case "V2":
					ff = newVarFace(900)
				case "A1":
					ff = font.NewFace(reuseFonts.altFont)
				default:
					ff = font.NewFace(reuseFonts.staticFont)
				}
				o := fresh.Shape(shapeInput(ff, op.Text, op.Feat))
				return outputDigest(&o)
			})
			r.op(op.Op, d, fd, p)
			outs = append(outs, kept{i + 1, out})
		case "SetFontCacheSize":
			sh.SetFontCacheSize(op.K)
			r.op(op.Op, "-", "-", "ok")
		case "SetVariations":
			v1w = op.W
			faces["V1"].SetVariations([]font.Variation{{Tag: wghtTag, Value: float32(op.W)}})
			r.op(op.Op, "-", "-", "ok")
		}
		for _, k := range outs {
			if k.step != i+1 {
				o := k.out
				r.recheck(k.step, outputDigest(&o))
			}
		}
	}
}

// ---------------------------------------------------------------- face
func reuseFace(r recEnc, ops []reuseOp) {
	f := newVarFace(0)
	w, ppem := 0, 0
	var coordBuf []tables.Coord
	for _, op := range ops {
		switch op.Op {
		case "SetVariations":
			w = op.W
			if op.W == 0 {
				f.SetVariations(nil) // back to the default instance
			} else if r.t%2 == 1 {
				// every second history: the two-step public path (normalized coordinates, then SetCoords) with a
				// caller-owned coordinate buffer that is edited in place from one instance to the next
				n := newVarFace(op.W).Coords()
				if len(coordBuf) != len(n) {
					coordBuf = make([]tables.Coord, len(n))
				}
				copy(coordBuf, n)
				f.SetCoords(coordBuf)
			} else {
				f.SetVariations([]font.Variation{{Tag: wghtTag, Value: float32(op.W)}})
			}
			r.op(op.Op, "-", "-", "ok")
		case "SetPpem":
			ppem = op.K
			f.SetPpem(uint16(op.K), uint16(op.K))
			r.op(op.Op, "-", "-", "ok")
		case "Extents", "Advance":
			q := func(face *font.Face) string {
				if op.Op == "Extents" {
					e, ok := face.GlyphExtents(font.GID(op.G))
					return digestOf(e, ok)
				}
				return digestOf(face.HorizontalAdvance(font.GID(op.G)), face.VerticalAdvance(font.GID(op.G)))
			}
			d, p := guard(func() string { return q(f) })
			fd, _ := guard(func() string {
				ff := newVarFace(w)
				if ppem != 0 {
					ff.SetPpem(uint16(ppem), uint16(ppem))
				}
				return q(ff)
			})
			r.op(op.Op, d, fd, p)
		}
	}
}

// ---------------------------------------------------------------- wrap
var reuseParas = map[int]synth{
	1: {text: []rune("abcd efg"), clusters: []int{0, 1, 2, 3, 4, 5, 6, 7}, runSplit: []int{0}, dirs: []int{0}, glyphsPer: 1},
	2: {text: []rune("abcd efg"), clusters: []int{0, 1, 3, 4, 5, 7}, runSplit: []int{0, 5}, dirs: []int{0, 0}, glyphsPer: 1},
	3: {text: []rune("abcd efg"), clusters: []int{0, 2, 4, 5, 6}, runSplit: []int{0}, dirs: []int{1}, glyphsPer: 2},
}

// the configuration is part of the arguments: paragraphs 2 and 3 are wrapped with a line limit
func wrapCfg(para int) shaping.WrapConfig {
	c := shaping.WrapConfig{Direction: di.DirectionLTR, BreakPolicy: shaping.Always, Truncator: makeTruncator(di.DirectionLTR, fixed.I(1))}
	if para >= 2 {
		c.TruncateAfterLines = para
		c.TextContinues = para == 3
	}
	return c
}

// applyWrapOps replays ops on lw and returns the digest of the LAST op's result
func applyWrapOp(lw *shaping.LineWrapper, op reuseOp) (string, []shaping.Line) {
	switch op.Op {
	case "WrapParagraph":
		s := reuseParas[op.Para]
		lines, tr := lw.WrapParagraph(wrapCfg(op.Para), op.W, s.text, shaping.NewSliceIterator(s.build()))
		var b bytes.Buffer
		for _, l := range lines {
			b.WriteString(lineDigest(l))
		}
		return digestOf(b.String(), tr), lines
	case "Prepare":
		s := reuseParas[op.Para]
		lw.Prepare(wrapCfg(op.Para), s.text, shaping.NewSliceIterator(s.build()))
		return "-", nil
	default:
		wl, done := lw.WrapNextLine(op.W)
		return digestOf(lineDigest(wl.Line), wl.Truncated, wl.NextLine, done), []shaping.Line{wl.Line}
	}
}

func reuseWrap(r recEnc, ops []reuseOp) {
	var lw shaping.LineWrapper
	type kept struct {
		step  int
		lines []shaping.Line
		extra string
	}
	var keep []kept
	since := 0 // index of the last Prepare / WrapParagraph
	for i, op := range ops {
		if op.Op != "WrapNextLine" {
			since = i
		}
		var lines []shaping.Line
		d, p := guard(func() string { dd, ll := applyWrapOp(&lw, op); lines = ll; return dd })
		fd, _ := guard(func() string {
			var fresh shaping.LineWrapper
			out := "-"
			for j := since; j <= i; j++ {
				if ops[j].Op == "WrapNextLine" && since == 0 && ops[0].Op == "WrapNextLine" {
					// no Prepare yet in this history: the zero wrapper is the fresh state
				}
				out, _ = applyWrapOp(&fresh, ops[j])
			}
			return out
		})
		rd := "-"
		if lines != nil {
			var b bytes.Buffer
			for _, l := range lines {
				b.WriteString(lineDigest(l))
			}
			rd = digestOf(b.String())
			keep = append(keep, kept{step: i + 1, lines: lines})
		}
		r.op2(op.Op, d, fd, p, rd)
		for _, k := range keep {
			if k.step != i+1 {
				var b bytes.Buffer
				for _, l := range k.lines {
					b.WriteString(lineDigest(l))
				}
				// the digest of the retained lines only (the scalar parts of the result cannot change)
				r.recheck(k.step, digestOf(b.String()))
			}
		}
	}
}

// ---------------------------------------------------------------- split / seg
var reuseSplitTexts = map[int][]rune{1: []rune("abc אבג 123"), 2: []rune("日本語 text (mixed) ."), 3: []rune("a"), 4: []rune("(אב) ab [12]  جمل")}

type parityFontmap struct{ a, b *font.Face }

func (p parityFontmap) ResolveFace(r rune) *font.Face {
	if r%2 == 0 {
		return p.a
	}
	return p.b
}

func inputsDigest(ins []shaping.Input, fm parityFontmap) string {
	var b bytes.Buffer
	for _, in := range ins {
		fi := 0
		if in.Face == fm.b {
			fi = 1
		}
		fmt.Fprintf(&b, "%d-%d,%v,%v,%s,%d,%v;", in.RunStart, in.RunEnd, in.Direction, in.Script, in.Language, fi, in.Size)
	}
	return digestOf(b.String())
}

func reuseSplit(r recEnc, ops []reuseOp) {
	var seg shaping.Segmenter
	fm := parityFontmap{font.NewFace(reuseFonts.staticFont), font.NewFace(reuseFonts.varFont)}
	for _, op := range ops {
		text := reuseSplitTexts[op.Text]
		in := shaping.Input{Text: text, RunStart: 0, RunEnd: len(text), Size: fixed.I(12), Direction: di.DirectionLTR, Language: "en"}
		d, p := guard(func() string { return inputsDigest(seg.Split(in, fm), fm) })
		fd, _ := guard(func() string { var fresh shaping.Segmenter; return inputsDigest(fresh.Split(in, fm), fm) })
		r.op(op.Op, d, fd, p)
	}
}

func segDigest(s *segmenter.Segmenter, n int) string {
	var b bytes.Buffer
	for _, k := range []byte{'l', 'g', 'w'} {
		it, m := itOf(s, k)
		fmt.Fprint(&b, it, m, flagsOf(s, k, n))
	}
	return digestOf(b.String())
}

func reuseSeg(r recEnc, ops []reuseOp) {
	var seg segmenter.Segmenter
	var buf []rune // the caller's input buffer, edited in place between the calls
	for _, op := range ops {
		text := reuseSplitTexts[op.Text]
		buf = append(buf[:0], text...)
		d, p := guard(func() string { seg.Init(buf); return segDigest(&seg, len(text)) })
		fd, _ := guard(func() string { var fresh segmenter.Segmenter; fresh.Init(text); return segDigest(&fresh, len(text)) })
		r.op(op.Op, d, fd, p)
	}
}

func reuseMain(args []string) error {
	// reuse exec <kind> <histories.ndjson> <prefix> <shards>
	if len(args) < 5 || args[0] != "exec" {
		return fmt.Errorf("reuse: usage: reuse exec <kind> <hist> <prefix> <shards>")
	}
	kind := args[1]
	if err := loadReuseFonts(); err != nil {
		return err
	}
	f, err := os.Open(args[2])
	if err != nil {
		return err
	}
	defer f.Close()
	shards, _ := strconv.Atoi(args[4])
	sw := newShardWriter(args[3], shards)
	defer sw.close()
	sc := bufio.NewScanner(f)
	sc.Buffer(make([]byte, 1<<20), 1<<24)
	t := 0
	for sc.Scan() {
		var ops []reuseOp
		if err := json.Unmarshal(sc.Bytes(), &ops); err != nil {
			return err
		}
		enc := sw.encs[t%shards]
		keys := map[string]bool{}
		for _, o := range ops {
			keys[fmt.Sprint(o.Face, o.Text, o.Para)] = true
		}
		nk := 0
		if len(keys) >= 2 {
			nk = 1
		}
		enc.Encode(map[string]interface{}{"t": t, "ev": "New", "kind": kind, "keys": nk, "ops": ops})
		r := recEnc{enc, t}
		switch kind {
		case "shaper":
			reuseShaper(r, ops)
		case "face":
			reuseFace(r, ops)
		case "wrap":
			reuseWrap(r, ops)
		case "split":
			reuseSplit(r, ops)
		default:
			reuseSeg(r, ops)
		}
		t++
	}
	fmt.Printf("{\"histories\": %d}\n", t)
	return sc.Err()
}

func init() { cmds["reuse"] = reuseMain }
