package main

// Engine "fidx" (C16): executes TLC-generated histories of file-system operations, refreshes,
// cache saves, crashes and loads in a temporary directory with real fonts as file contents,
// and enumerates truncations / single-byte corruptions of a serialized index.
// TLC (FontIndexV.tla) decides.

import (
	"bufio"
	"bytes"
	"encoding/json"
	"fmt"
	"math/rand"
	"os"
	"path/filepath"
	"sort"
	"strconv"
	"strings"
	"time"

	td "github.com/go-text/typesetting-utils/opentype"
	"github.com/go-text/typesetting/fontscan"
)

type fiOp struct {
	Op string `json:"op"`
	P  string `json:"p"`
	Q  string `json:"q"`
	C  int    `json:"c"`
}

type fiEntry struct {
	P string `json:"p"`
	M int    `json:"m"`
	D string `json:"d"`
}

var fiBase = time.Unix(1700000000, 0)

func fiContents() map[int][]byte {
	out := map[int][]byte{}
	for id, p := range map[int]string{1: "common/Roboto-BoldItalic.ttf", 2: "common/Raleway-v4020-Regular.otf", 3: "toys/Var1.ttf"} {
		b, err := td.Files.ReadFile(p)
		if err != nil {
			panic(err)
		}
		out[id] = b
	}
	out[9] = []byte("this is not a font file at all, just some bytes\n")
	// a collection whose faces have different coverage (several footprints in one file entry)
	out[4] = buildTTC([][]byte{synthFontBytes([]rune{'a', 'b', 'c', 0x3B1, 0x3B2, 0x4E00}), synthFontBytes([]rune{'x', 'y', 0x2200, 0x2211, 0x4E00}), synthFontBytes([]rune{0x5D0})})
	return out
}

func fiProject(idx fontscan.VerifIndex, dir string) []fiEntry {
	out := []fiEntry{}
	for _, e := range fontscan.VerifEntries(idx) {
		rel, err := filepath.Rel(dir, e.Path)
		if err != nil {
			rel = e.Path
		}
		// mtime in clock ticks (seconds since the base); other values are kept verbatim so that they cannot alias a tick
		m := int((e.ModTime - fiBase.UnixNano()) / int64(time.Second))
		if (e.ModTime-fiBase.UnixNano())%int64(time.Second) != 0 {
			m = -1
		}
		out = append(out, fiEntry{P: filepath.ToSlash(rel), M: m, D: digestOf(string(e.Footprints), e.NbFonts, e.LocationOK)})
	}
	sort.Slice(out, func(i, j int) bool { return out[i].P < out[j].P })
	return out
}

func fiScan(prev fontscan.VerifIndex, dir string) (idx fontscan.VerifIndex, status string) {
	status = "ok"
	defer func() {
		if r := recover(); r != nil {
			status = "panic: " + fmt.Sprint(r)
		}
	}()
	idx, err := fontscan.VerifScan(prev, dir)
	if err != nil {
		status = "err: " + err.Error()
	}
	return
}

var fiCachePath string

func fiLoadFile(path string) (idx fontscan.VerifIndex, res string) {
	res = "ok"
	defer func() {
		if r := recover(); r != nil {
			res = "panic"
		}
	}()
	idx, err := fontscan.VerifLoadFile(path)
	if err != nil {
		return nil, "err"
	}
	return idx, "ok"
}

func fiDeserialize(b []byte) (idx fontscan.VerifIndex, res string) {
	res = "ok"
	defer func() {
		if r := recover(); r != nil {
			res = "panic"
		}
	}()
	idx, err := fontscan.VerifDeserialize(bytes.NewReader(b))
	if err != nil {
		return nil, "err"
	}
	return idx, "ok"
}

// linkMode: the path "a.ttf" of the scanned tree is a symbolic link to a file kept outside the tree; writes
// go through the link (the target is rewritten, the link itself is never touched again). For the index a
// link is the file it points to (its content and modification time).
func fiExec(enc *json.Encoder, t int, ops []fiOp, contents map[int][]byte, readSweep bool, rng *rand.Rand, linkMode bool) {
	dir, err := os.MkdirTemp("", "vfidx")
	if err != nil {
		panic(err)
	}
	dir, _ = filepath.EvalSymlinks(dir)
	defer os.RemoveAll(dir)
	tdir, nlinks := "", 0
	if linkMode {
		tdir, err = os.MkdirTemp("", "vfidxt")
		if err != nil {
			panic(err)
		}
		tdir, _ = filepath.EvalSymlinks(tdir)
		defer os.RemoveAll(tdir)
	}
	enc.Encode(map[string]interface{}{"t": t, "ev": "New", "link": linkMode})
	clock := 0
	tick := func() (int, time.Time) { clock++; return clock, fiBase.Add(time.Duration(clock) * time.Second) }
	var index fontscan.VerifIndex
	var cache []byte
	torn := false
	for _, op := range ops {
		full := filepath.Join(dir, filepath.FromSlash(op.P))
		switch op.Op {
		case "Write", "WriteOld":
			os.MkdirAll(filepath.Dir(full), 0o755)
			if linkMode && op.P == "a.ttf" {
				if _, err := os.Lstat(full); err != nil {
					nlinks++
					target := filepath.Join(tdir, fmt.Sprintf("target-%d.ttf", nlinks)) // a renamed link keeps its own target
					os.WriteFile(target, contents[op.C], 0o644)
					os.Symlink(target, full)
				}
			}
			os.WriteFile(full, contents[op.C], 0o644)
			m, tm := tick()
			if op.Op == "WriteOld" {
				// restored file: an older, never used, modification time
				m = -m
				tm = fiBase.Add(time.Duration(m) * time.Second)
			}
			os.Chtimes(full, tm, tm)
			enc.Encode(map[string]interface{}{"t": t, "ev": "Write", "p": op.P, "c": op.C, "m": m})
		case "Remove":
			os.Remove(full)
			enc.Encode(map[string]interface{}{"t": t, "ev": "Remove", "p": op.P})
		case "Touch":
			m, tm := tick()
			os.Chtimes(full, tm, tm)
			enc.Encode(map[string]interface{}{"t": t, "ev": "Touch", "p": op.P, "m": m})
		case "Rename":
			dst := filepath.Join(dir, filepath.FromSlash(op.Q))
			os.MkdirAll(filepath.Dir(dst), 0o755)
			os.Rename(full, dst)
			enc.Encode(map[string]interface{}{"t": t, "ev": "Rename", "p": op.P, "q": op.Q})
		case "Refresh":
			prevPaths := map[string]int64{}
			for _, e := range fontscan.VerifEntries(index) {
				prevPaths[e.Path] = e.ModTime
			}
			inc, st1 := fiScan(index, dir)
			scr, st2 := fiScan(nil, dir)
			p := "ok"
			if st1 != "ok" || st2 != "ok" {
				p = st1 + "/" + st2
			}
			reused, rescanned := 0, 0
			for _, e := range fontscan.VerifEntries(inc) {
				if m, ok := prevPaths[e.Path]; ok && m == e.ModTime {
					reused++
				} else {
					rescanned++
				}
			}
			enc.Encode(map[string]interface{}{"t": t, "ev": "Refresh", "p": p, "inc": fiProject(inc, dir), "scr": fiProject(scr, dir), "reused": reused, "rescanned": rescanned})
			index = inc
		case "Save":
			// through the library's own file-level writer, onto the cache file that every earlier history
			// of this process has written too (a cache file lives across runs and is rewritten in place)
			if err := fontscan.VerifSaveFile(index, fiCachePath); err != nil {
				panic(err)
			}
			cache, _ = os.ReadFile(fiCachePath)
			torn = false
			enc.Encode(map[string]interface{}{"t": t, "ev": "Save", "idx": fiProject(index, dir)})
		case "Crash":
			// a crash during the write leaves a prefix of the file
			if len(cache) > 0 {
				cache = cache[:rng.Intn(len(cache))]
			}
			torn = true
			os.WriteFile(fiCachePath, cache, 0o600)
			enc.Encode(map[string]interface{}{"t": t, "ev": "Crash", "len": len(cache)})
		case "Load":
			idx, res := fiLoadFile(fiCachePath)
			if res == "ok" {
				index = idx
			} else {
				index = nil
			}
			enc.Encode(map[string]interface{}{"t": t, "ev": "Load", "res": res, "torn": torn, "idx": fiProject(idx, dir)})
		}
	}
	{
		// the serialized final index always reads back (every history); every truncation and a set of
		// single-byte corruptions of it only for the sampled histories (readSweep)
		scr, _ := fiScan(nil, dir)
		ser, err := fontscan.VerifSerialize(scr)
		if err != nil {
			panic(err)
		}
		want := digestOf(fiProject(scr, dir))
		try := func(kind string, pos int, b []byte) {
			idx, res := fiDeserialize(b)
			ev := map[string]interface{}{"t": t, "ev": "Read", "kind": kind, "pos": pos, "res": res, "same": false, "incd": "", "scrd": want}
			if res == "ok" {
				ev["same"] = digestOf(fiProject(idx, dir)) == want
				inc, st := fiScan(idx, dir)
				ev["incd"] = digestOf(fiProject(inc, dir)) + st[:2]
				ev["scrd"] = want + "ok"
			}
			enc.Encode(ev)
		}
		try("full", len(ser), ser)
		{
			// the same read-back through the cache file (file-level writer and reader of the library)
			ev := map[string]interface{}{"t": t, "ev": "Read", "kind": "file", "pos": len(ser), "res": "err", "same": false, "incd": "", "scrd": want}
			if err := fontscan.VerifSaveFile(scr, fiCachePath); err == nil {
				idx, res := fiLoadFile(fiCachePath)
				ev["res"] = res
				if res == "ok" {
					ev["same"] = digestOf(fiProject(idx, dir)) == want
					inc, st := fiScan(idx, dir)
					ev["incd"] = digestOf(fiProject(inc, dir)) + st[:2]
					ev["scrd"] = want + "ok"
				}
			}
			enc.Encode(ev)
		}
		if !readSweep {
			return
		}
		for k := 0; k < len(ser); k++ {
			try("prefix", k, ser[:k])
		}
		step := 1
		if os.Getenv("VERIF_TIER") != "thorough" {
			step = 3
		}
		for k := rng.Intn(step); k < len(ser); k += step {
			for _, x := range []byte{0x01, 0x80, 0xFF} {
				m := append([]byte(nil), ser...)
				m[k] ^= x
				try("flip", k, m)
			}
		}
	}
}

func fidxMain(args []string) error {
	// fidx exec <histories.ndjson> <prefix> <shards> <sweeps>
	if len(args) < 5 || args[0] != "exec" {
		return fmt.Errorf("fidx: usage: fidx exec <hist> <prefix> <shards> <sweeps>")
	}
	f, err := os.Open(args[1])
	if err != nil {
		return err
	}
	defer f.Close()
	shards, _ := strconv.Atoi(args[3])
	sweeps, _ := strconv.Atoi(args[4])
	sw := newShardWriter(args[2], shards)
	defer sw.close()
	cdir, err := os.MkdirTemp("", "vfidxcache")
	if err != nil {
		return err
	}
	defer os.RemoveAll(cdir)
	fiCachePath = filepath.Join(cdir, "cache", "index.cache")
	contents := fiContents()
	// digest of every content scanned alone (fact for the monitor)
	dig := []string{}
	{
		d, _ := os.MkdirTemp("", "vfidxc")
		d, _ = filepath.EvalSymlinks(d)
		for c := 1; c <= 9; c++ {
			b, ok := contents[c]
			if !ok {
				dig = append(dig, "none")
				continue
			}
			p := filepath.Join(d, "x.ttf")
			os.WriteFile(p, b, 0o644)
			os.Chtimes(p, fiBase, fiBase)
			idx, _ := fiScan(nil, d)
			dig = append(dig, fiProject(idx, d)[0].D)
			os.Remove(p)
		}
		os.RemoveAll(d)
	}
	for i := range sw.encs {
		sw.encs[i].Encode(map[string]interface{}{"ev": "Contents", "dig": dig})
	}
	seed := seedFromEnv()
	rng := rand.New(rand.NewSource(seed*37 + 5))
	var hists [][]fiOp
	sc := bufio.NewScanner(f)
	sc.Buffer(make([]byte, 1<<20), 1<<24)
	for sc.Scan() {
		var ops []fiOp
		if err := json.Unmarshal(sc.Bytes(), &ops); err != nil {
			return err
		}
		hists = append(hists, ops)
	}
	sweepAt := map[int]bool{}
	for len(sweepAt) < sweeps && len(sweepAt) < len(hists) {
		sweepAt[rng.Intn(len(hists))] = true
	}
	linked := 0
	for t, ops := range hists {
		fiExec(sw.encs[t%shards], t, ops, contents, sweepAt[t], rng, false)
		// the same history with a.ttf reached through a symbolic link, when it writes that path
		for _, op := range ops {
			if (op.Op == "Write" || op.Op == "WriteOld") && op.P == "a.ttf" {
				fiExec(sw.encs[t%shards], len(hists)+t, ops, contents, false, rng, true)
				linked++
				break
			}
		}
	}
	fmt.Printf("{\"histories\": %d, \"through_symlink\": %d, \"sweeps\": %d}\n", len(hists), linked, len(sweepAt))
	return nil
}

var _ = strings.HasPrefix

func init() { cmds["fidx"] = fidxMain }
