package main

// Engine "css" (C15): calls fontscan's retainsBestMatches (through the verif export) on
// enumerated / random candidate lists and requests, recording the retained indices.
// TLC (CSSMatchV.tla) compares with CSSMatch!Narrow.

import (
	"encoding/json"
	"fmt"
	"math/rand"
	"strconv"

	"github.com/go-text/typesetting/font"
	"github.com/go-text/typesetting/fontscan"
)

type cssAspect struct {
	St int `json:"st"`
	Sy int `json:"sy"`
	W  int `json:"w"`
}

type cssEvent struct {
	C []cssAspect `json:"c"`
	Q cssAspect   `json:"q"`
	R []int       `json:"r"`
	P string      `json:"p"`
}

func (a cssAspect) real() font.Aspect {
	return font.Aspect{Stretch: font.Stretch(float32(a.St) / 1000), Style: font.Style(a.Sy), Weight: font.Weight(a.W)}
}

func cssObserve(enc *json.Encoder, c []cssAspect, q cssAspect) {
	ev := cssEvent{C: c, Q: q, R: []int{}, P: "ok"}
	as := make([]font.Aspect, len(c))
	for i, a := range c {
		as[i] = a.real()
	}
	func() {
		defer func() {
			if r := recover(); r != nil {
				ev.P = "panic"
			}
		}()
		r := fontscan.VerifRetainBest(as, q.real())
		if r != nil {
			ev.R = r
		}
	}()
	enc.Encode(ev)
	// the same candidates as a scattered, permuted subset of a larger font set (what FontMap passes): the
	// result must be the same candidates
	cssObserveEmbedded(enc, c, q, as)
}

var cssDecoys = []font.Aspect{{Stretch: 0.5, Style: 1, Weight: 100}, {Stretch: 2, Style: 2, Weight: 900}, {Stretch: 1, Style: 1, Weight: 400},
	{Stretch: 0.75, Style: 2, Weight: 700}, {Stretch: 1.25, Style: 1, Weight: 300}}

func cssObserveEmbedded(enc *json.Encoder, c []cssAspect, q cssAspect, as []font.Aspect) {
	n := len(c)
	if n == 0 {
		return
	}
	// deterministic scatter from the case itself: decoys first, then candidates in reverse order with a decoy between
	var all []font.Aspect
	all = append(all, cssDecoys[(q.W/50+n)%len(cssDecoys)], cssDecoys[(q.St/125+2*n)%len(cssDecoys)])
	pos := make([]int, n)
	for k := n - 1; k >= 0; k-- {
		pos[k] = len(all)
		all = append(all, as[k], cssDecoys[(k+q.Sy)%len(cssDecoys)])
	}
	ev := cssEvent{C: c, Q: q, R: []int{}, P: "ok"}
	func() {
		defer func() {
			if r := recover(); r != nil {
				ev.P = "panic"
			}
		}()
		r := fontscan.VerifRetainBestIn(all, pos, q.real())
		for _, j := range r {
			k := -1
			for i, p := range pos {
				if p == j {
					k = i
				}
			}
			if k < 0 {
				ev.P = "result outside the candidates"
				return
			}
			ev.R = append(ev.R, k)
		}
	}()
	enc.Encode(ev)
}

func cssMain(args []string) error {
	if len(args) < 1 {
		return fmt.Errorf("css: missing sub-command")
	}
	seed := seedFromEnv()
	switch args[0] {
	case "enum":
		// css enum <maxSize> <grid small|large> <prefix> <shards>
		maxSize, _ := strconv.Atoi(args[1])
		grid := args[2]
		prefix := args[3]
		shards, _ := strconv.Atoi(args[4])
		stretches := []int{750, 1000, 1250}
		weights := []int{300, 400, 450, 500, 600}
		if grid == "large" {
			stretches = []int{500, 875, 1000, 1125, 2000}
			weights = []int{100, 350, 400, 450, 500, 550, 900}
		}
		var aspects []cssAspect
		for _, st := range stretches {
			for sy := 1; sy <= 2; sy++ {
				for _, w := range weights {
					aspects = append(aspects, cssAspect{st, sy, w})
				}
			}
		}
		var reqs []cssAspect
		for _, st := range append([]int{0, 625, 1100}, stretches...) {
			for sy := 0; sy <= 2; sy++ {
				for _, w := range append([]int{0, 425, 950, 1}, weights...) {
					reqs = append(reqs, cssAspect{st, sy, w})
				}
			}
		}
		sw := newShardWriter(prefix, shards)
		defer sw.close()
		n := 0
		var rec func(cur []cssAspect, from int)
		rec = func(cur []cssAspect, from int) {
			if len(cur) >= 1 {
				for _, q := range reqs {
					cssObserve(sw.enc(), cur, q)
					n++
				}
			}
			if len(cur) == maxSize {
				return
			}
			// multisets in non-decreasing index order plus, for size 2, the reversed order is covered by
			// a seeded shuffle below; order of candidates must not matter for the retained set
			for i := from; i < len(aspects); i++ {
				rec(append(append([]cssAspect(nil), cur...), aspects[i]), i)
			}
		}
		rec(nil, 0)
		fmt.Printf("{\"vectors\": %d, \"aspects\": %d, \"requests\": %d}\n", n, len(aspects), len(reqs))
		return nil
	case "rand":
		// css rand <count> <prefix> <shards>: larger random candidate lists over the full CSS grid, shuffled order
		count, _ := strconv.Atoi(args[1])
		prefix := args[2]
		shards, _ := strconv.Atoi(args[3])
		rng := rand.New(rand.NewSource(seed*977 + 3))
		stretches := []int{500, 625, 750, 875, 1000, 1125, 1250, 1500, 2000}
		sw := newShardWriter(prefix, shards)
		defer sw.close()
		for i := 0; i < count; i++ {
			k := 1 + rng.Intn(12)
			c := make([]cssAspect, k)
			for j := range c {
				c[j] = cssAspect{stretches[rng.Intn(len(stretches))], 1 + rng.Intn(2), 50 * (1 + rng.Intn(20))}
			}
			q := cssAspect{stretches[rng.Intn(len(stretches))], rng.Intn(3), 25 * rng.Intn(41)}
			if rng.Intn(5) == 0 {
				q.St = 0
			}
			cssObserve(sw.enc(), c, q)
		}
		fmt.Printf("{\"vectors\": %d}\n", count)
		return nil
	}
	return fmt.Errorf("css: unknown sub-command")
}

func init() { cmds["css"] = cssMain }
