package main

// Engine "itemize" (C07): calls shaping.Segmenter.Split on a re-used and on a fresh segmenter
// with table-driven font maps; records the runs and the per-rune facts the property talks about
// (bidi parity from golang.org/x/text, script, orientation, font selection). TLC decides.

import (
	"encoding/json"
	"fmt"
	"math/rand"
	"strconv"
	"unicode"

	"github.com/go-text/typesetting/di"
	"github.com/go-text/typesetting/font"
	"github.com/go-text/typesetting/harfbuzz"
	"github.com/go-text/typesetting/language"
	"github.com/go-text/typesetting/shaping"
	"github.com/go-text/typesetting/unicodedata"
	"golang.org/x/image/math/fixed"
	"golang.org/x/text/unicode/bidi"
)

type itFontmap struct {
	faces     []*font.Face
	script    language.Script
	useScript bool
}

func (f *itFontmap) ResolveFace(r rune) *font.Face {
	k := int(r)
	if f.useScript {
		k += int(f.script % 7)
	}
	return f.faces[k%len(f.faces)]
}

type itFontmapS struct{ *itFontmap }

func (f itFontmapS) SetScript(s language.Script) { f.script = s }

func maySelectFont(r rune) bool {
	return !(unicode.Is(unicode.Cc, r) || unicode.Is(unicode.Cs, r) || unicode.Is(unicode.Zl, r) || unicode.Is(unicode.Zp, r) ||
		(unicode.Is(unicode.Zs, r) && r != 0x1680) || harfbuzz.IsDefaultIgnorable(r))
}

// per-rune bidi parity of text[start:end] under the given default direction, from x/text
func bidiParity(text []rune, start, end int, rtl bool) []int {
	out := make([]int, len(text))
	if start >= end {
		return out
	}
	var p bidi.Paragraph
	def := bidi.LeftToRight
	if rtl {
		def = bidi.RightToLeft
	}
	p.SetString(string(text[start:end]), bidi.DefaultDirection(def))
	o, err := p.Order()
	if err != nil || o.NumRuns() == 0 {
		// x/text gives no ordering for this string (e.g. it starts with a paragraph separator):
		// there is no level fact, marked -1
		for k := start; k < end && k < len(out); k++ {
			out[k] = -1
		}
		return out
	}
	for i := 0; i < o.NumRuns(); i++ {
		run := o.Run(i)
		rs, re := run.Pos() // rune positions within the sub-string, end inclusive
		re++
		par := 0
		if run.Direction() == bidi.RightToLeft {
			par = 1
		}
		for k := rs; k < re && start+k < len(out); k++ {
			out[start+k] = par
		}
	}
	return out
}

type itRun struct {
	Start     int    `json:"start"`
	End       int    `json:"end"`
	Prog      int    `json:"prog"`
	Vert      bool   `json:"vert"`
	Oset      bool   `json:"oset"`
	Side      bool   `json:"side"`
	Script    string `json:"script"`
	Lang      string `json:"lang"`
	Face      int    `json:"face"`
	Size      int    `json:"size"`
	Td        string `json:"td"`
	Fd        string `json:"fd"`
	Orient    []bool `json:"orient"`
	Maysel    []bool `json:"maysel"`
	Want      []int  `json:"want"`
	Usescript bool   `json:"usescript"`
	Hassample bool   `json:"hassample"`
}

func itProject(runs []shaping.Input, fm *itFontmap, withFacts bool) []itRun {
	out := []itRun{}
	faceIdx := func(f *font.Face) int {
		for i, x := range fm.faces {
			if x == f {
				return i + 1
			}
		}
		return 0
	}
	for _, r := range runs {
		pr := 0
		if r.Direction.Progression() == di.TowardTopLeft {
			pr = 1
		}
		ir := itRun{Start: r.RunStart, End: r.RunEnd, Prog: pr, Vert: r.Direction.IsVertical(), Oset: r.Direction.HasVerticalOrientation(), Side: r.Direction.IsSideways(),
			Script: scriptName(r.Script), Lang: string(r.Language), Face: faceIdx(r.Face), Size: int(r.Size), Td: digestOf(string(r.Text)), Fd: digestOf(r.FontFeatures),
			Orient: []bool{}, Maysel: []bool{}, Want: []int{}}
		if withFacts {
			vo := unicodedata.LookupVerticalOrientation(r.Script)
			probe := &itFontmap{faces: fm.faces, useScript: fm.useScript, script: r.Script}
			for i := r.RunStart; i < r.RunEnd && i < len(r.Text) && i >= 0; i++ {
				ir.Orient = append(ir.Orient, vo.Orientation(r.Text[i]))
				ir.Maysel = append(ir.Maysel, maySelectFont(r.Text[i]))
				ir.Want = append(ir.Want, faceIdx(probe.ResolveFace(r.Text[i])))
			}
			id, ok := language.NewLangID(r.Language)
			ir.Usescript = !ok || id.UseScript(r.Script)
			ir.Hassample = language.ScriptToLang[r.Script] != 0
		}
		out = append(out, ir)
	}
	return out
}

func itObserve(enc *json.Encoder, reused *shaping.Segmenter, faces []*font.Face, text []rune, start, end int, dir di.Direction, lang language.Language, useScript bool, feats []shaping.FontFeature) {
	fm := &itFontmap{faces: faces, useScript: useScript}
	var fmap shaping.Fontmap = fm
	if useScript {
		fmap = itFontmapS{fm}
	}
	in := shaping.Input{Text: text, RunStart: start, RunEnd: end, Direction: dir, Size: fixed.I(12), Language: lang, FontFeatures: feats}
	pr := 0
	if dir.Progression() == di.TowardTopLeft {
		pr = 1
	}
	initial := lang
	if initial == "" {
		initial = "en"
	}
	_, known := language.NewLangID(initial)
	ev := map[string]interface{}{"p": "ok", "runs": []itRun{}, "fresh": []itRun{},
		"i": map[string]interface{}{"n": len(text), "start": start, "end": end, "prog": pr, "vert": dir.IsVertical(), "oset": dir.HasVerticalOrientation(), "side": dir.IsSideways(),
			"lang": string(lang), "langknown": known, "size": int(in.Size), "td": digestOf(string(text)), "fd": digestOf(feats), "text": toInts(text), "usescript": useScript}}
	scripts := make([]string, len(text))
	strong := make([]bool, len(text))
	for i, r := range text {
		s := language.LookupScript(r)
		scripts[i] = scriptName(s)
		strong[i] = s.Strong()
	}
	ev["f"] = map[string]interface{}{"parity": bidiParity(text, start, end, pr == 1), "script": scripts, "strong": strong}
	func() {
		defer func() {
			if r := recover(); r != nil {
				ev["p"] = "panic: " + fmt.Sprint(r)
			}
		}()
		runs := reused.Split(in, fmap)
		ev["runs"] = itProject(runs, fm, true)
		var fresh shaping.Segmenter
		fm2 := &itFontmap{faces: faces, useScript: useScript}
		var fmap2 shaping.Fontmap = fm2
		if useScript {
			fmap2 = itFontmapS{fm2}
		}
		ev["fresh"] = itProject(fresh.Split(in, fmap2), fm, false)
	}()
	enc.Encode(ev)
}

func itemizeMain(args []string) error {
	// itemize run <enumLen> <randCount> <prefix> <shards>
	if len(args) < 5 {
		return fmt.Errorf("itemize: usage: itemize run <enumLen> <randCount> <prefix> <shards>")
	}
	enumLen, _ := strconv.Atoi(args[1])
	randCount, _ := strconv.Atoi(args[2])
	shards, _ := strconv.Atoi(args[4])
	if err := loadReuseFonts(); err != nil {
		return err
	}
	faces := []*font.Face{font.NewFace(reuseFonts.staticFont), font.NewFace(reuseFonts.staticFont), font.NewFace(reuseFonts.varFont)}
	sw := newShardWriter(args[3], shards)
	defer sw.close()
	segs := make([]*shaping.Segmenter, shards)
	for i := range segs {
		segs[i] = &shaping.Segmenter{}
	}
	seed := seedFromEnv()
	rng := rand.New(rand.NewSource(seed*523 + 7))
	classAlphabet := []rune{'a', 'א', 'ع', '1', ' ', '(', ')', '[', '漢', 0x0301, 0x200D, 'я'}
	longAlphabet := []rune{'a', 'b', 'א', 'ב', 'ع', 'س', '1', '2', ' ', '(', ')', '[', ']', '漢', 'あ', 0x0301, 0x200D, '\n', '.', ',', 'я', 0x0660, 0x202B, 0x202C, '“', '”', 0x1100, 0x30FC, '{', '}', 0x2028, 0x202E, 0x202D, 0x2067, 0x2066, 0x2069, 0x202A}
	side := func(b bool) di.Direction { d := di.DirectionTTB; d.SetSideways(b); return d }
	dirs := []di.Direction{di.DirectionLTR, di.DirectionRTL, di.DirectionTTB, di.DirectionBTT, side(true), side(false)}
	langs := []language.Language{"", "en", "fr", "he", "xx-unknown", "ar", "ko"}
	n := 0
	call := func(text []rune, s, e int) {
		dir := dirs[rng.Intn(len(dirs))]
		var feats []shaping.FontFeature
		if rng.Intn(4) == 0 {
			feats = []shaping.FontFeature{{Tag: 0x6c696761, Value: 0}}
		}
		sh := n % shards
		itObserve(sw.encs[sh], segs[sh], faces, text, s, e, dir, langs[rng.Intn(len(langs))], rng.Intn(2) == 0, feats)
		n++
	}
	// exhaustive texts over the class alphabet, whole range plus one seeded sub-range each
	for L := 1; L <= enumLen; L++ {
		idx := make([]int, L)
		for {
			text := make([]rune, L)
			for i, k := range idx {
				text[i] = classAlphabet[k]
			}
			call(text, 0, L)
			if L >= 2 {
				s := rng.Intn(L)
				call(text, s, s+1+rng.Intn(L-s))
			}
			k := L - 1
			for k >= 0 {
				idx[k]++
				if idx[k] < len(classAlphabet) {
					break
				}
				idx[k] = 0
				k--
			}
			if k < 0 {
				break
			}
		}
	}
	for i := 0; i < randCount; i++ {
		L := 1 + rng.Intn(14)
		text := make([]rune, L)
		for j := range text {
			text[j] = longAlphabet[rng.Intn(len(longAlphabet))]
		}
		s := rng.Intn(L)
		e := s + 1 + rng.Intn(L-s)
		if rng.Intn(20) == 0 {
			e = s // degenerate
		}
		if rng.Intn(40) == 0 {
			s, e = e, s
		}
		call(text, s, e)
	}
	fmt.Printf("{\"calls\": %d}\n", n)
	return nil
}

func init() { cmds["itemize"] = itemizeMain }
