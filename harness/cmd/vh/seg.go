package main

// Engine "seg" (C06): drives segmenter.Segmenter and records, per string, the class tuples
// (facts from the library's own lookup tables) and the observed boundary flags / iterator
// segments. The decision (are these the UAX #14 / #29 boundaries?) is made by TLC (SegV.tla).

import (
	"bufio"
	"encoding/json"
	"fmt"
	"math/rand"
	"os"
	"sort"
	"strconv"
	"strings"
	"unicode"

	"github.com/go-text/typesetting/segmenter"
	ucd "github.com/go-text/typesetting/unicodedata"
)

var lbNames = map[*unicode.RangeTable]string{
	ucd.BreakBK: "BK", ucd.BreakCR: "CR", ucd.BreakLF: "LF", ucd.BreakNL: "NL", ucd.BreakSP: "SP", ucd.BreakNU: "NU",
	ucd.BreakAL: "AL", ucd.BreakIS: "IS", ucd.BreakPR: "PR", ucd.BreakPO: "PO", ucd.BreakOP: "OP", ucd.BreakCL: "CL",
	ucd.BreakCP: "CP", ucd.BreakQU: "QU", ucd.BreakHY: "HY", ucd.BreakSG: "SG", ucd.BreakGL: "GL", ucd.BreakNS: "NS",
	ucd.BreakEX: "EX", ucd.BreakSY: "SY", ucd.BreakHL: "HL", ucd.BreakID: "ID", ucd.BreakIN: "IN", ucd.BreakBA: "BA",
	ucd.BreakBB: "BB", ucd.BreakB2: "B2", ucd.BreakZW: "ZW", ucd.BreakCM: "CM", ucd.BreakEB: "EB", ucd.BreakEM: "EM",
	ucd.BreakWJ: "WJ", ucd.BreakZWJ: "ZWJ", ucd.BreakH2: "H2", ucd.BreakH3: "H3", ucd.BreakJL: "JL", ucd.BreakJV: "JV",
	ucd.BreakJT: "JT", ucd.BreakRI: "RI", ucd.BreakCB: "CB", ucd.BreakAI: "AI", ucd.BreakCJ: "CJ", ucd.BreakSA: "SA",
	ucd.BreakXX: "XX",
}

var wbNames = map[*unicode.RangeTable]string{
	ucd.WordBreakALetter: "AL", ucd.WordBreakDouble_Quote: "DQ", ucd.WordBreakExtendFormat: "EF", ucd.WordBreakExtendNumLet: "ENL",
	ucd.WordBreakHebrew_Letter: "HL", ucd.WordBreakKatakana: "KA", ucd.WordBreakMidLetter: "ML", ucd.WordBreakMidNum: "MN",
	ucd.WordBreakMidNumLet: "MNL", ucd.WordBreakNewlineCRLF: "NL", ucd.WordBreakNumeric: "NU", ucd.WordBreakRegional_Indicator: "RI",
	ucd.WordBreakSingle_Quote: "SQ", ucd.WordBreakWSegSpace: "WS", nil: "XX",
}

var gbNames = map[*unicode.RangeTable]string{
	ucd.GraphemeBreakCR: "CR", ucd.GraphemeBreakControl: "CN", ucd.GraphemeBreakL: "L", ucd.GraphemeBreakLF: "LF", ucd.GraphemeBreakLV: "LV",
	ucd.GraphemeBreakLVT: "LVT", ucd.GraphemeBreakExtend: "EX", ucd.GraphemeBreakPrepend: "PP", ucd.GraphemeBreakRegional_Indicator: "RI",
	ucd.GraphemeBreakSpacingMark: "SM", ucd.GraphemeBreakT: "T", ucd.GraphemeBreakV: "V", ucd.GraphemeBreakZWJ: "ZWJ", nil: "XX",
}

// class tuple of one rune; the json form is what the specs read.
// kind l: c, ea, epcn, mnmc ; kind g: c, ep ; kind w: c, ep, zwj, cr, lf, wc
type segTuple struct {
	k    byte
	C    string
	Ea   bool
	Epcn bool
	Mnmc bool
	Ep   bool
	Zwj  bool
	Cr   bool
	Lf   bool
	Wc   bool
}

func b01(b bool) string {
	if b {
		return "true"
	}
	return "false"
}

func (t segTuple) MarshalJSON() ([]byte, error) {
	switch t.k {
	case 'l':
		return []byte(`{"c":"` + t.C + `","ea":` + b01(t.Ea) + `,"epcn":` + b01(t.Epcn) + `,"mnmc":` + b01(t.Mnmc) + `}`), nil
	case 'g':
		return []byte(`{"c":"` + t.C + `","ep":` + b01(t.Ep) + `}`), nil
	default:
		return []byte(`{"c":"` + t.C + `","ep":` + b01(t.Ep) + `,"zwj":` + b01(t.Zwj) + `,"cr":` + b01(t.Cr) + `,"lf":` + b01(t.Lf) + `,"wc":` + b01(t.Wc) + `}`), nil
	}
}

func lineTuple(r rune) segTuple {
	lc := ucd.LookupLineBreakClass(r)
	ty := ucd.LookupType(r)
	t := segTuple{k: 'l', C: lbNames[lc]}
	// East Asian width matters to the rules for OP and CP only (LB30); it is also recorded for the classes
	// LB9 makes transparent, so that the enumeration has a wide and a narrow representative of them: an
	// implementation that looks at the width of the rune just before the break instead of the base's
	// behaves differently on the two
	if lc == ucd.BreakOP || lc == ucd.BreakCP || lc == ucd.BreakCM || lc == ucd.BreakZWJ {
		t.Ea = unicode.Is(ucd.LargeEastAsian, r)
	}
	t.Epcn = unicode.Is(ucd.Extended_Pictographic, r) && ty == nil
	if lc == ucd.BreakSA {
		t.Mnmc = ty == unicode.Mn || ty == unicode.Mc
	}
	return t
}

func graphTuple(r rune) segTuple {
	return segTuple{k: 'g', C: gbNames[ucd.LookupGraphemeBreakClass(r)], Ep: unicode.Is(ucd.Extended_Pictographic, r)}
}

func wordTuple(r rune) segTuple {
	return segTuple{k: 'w', C: wbNames[ucd.LookupWordBreakClass(r)], Ep: unicode.Is(ucd.Extended_Pictographic, r),
		Zwj: r == 0x200D, Cr: r == '\r', Lf: r == '\n', Wc: unicode.Is(ucd.Word, r)}
}

func tupleFor(kind byte, r rune) segTuple {
	switch kind {
	case 'l':
		return lineTuple(r)
	case 'g':
		return graphTuple(r)
	default:
		return wordTuple(r)
	}
}

type jointTuple struct{ l, g, w segTuple }

// alphabet of distinct tuples with representative runes
type alphabet struct {
	keys []string
	reps [][]rune // up to maxReps representatives each
}

const maxReps = 12

func buildAlphabet(key func(r rune) string) alphabet {
	m := map[string][]rune{}
	cnt := map[string]int{}
	for r := rune(0); r <= 0x10FFFF; r++ {
		if r >= 0xD800 && r <= 0xDFFF {
			continue
		}
		k := key(r)
		cnt[k]++
		c := cnt[k]
		// keep first 4, then reservoir-ish sparse picks
		if len(m[k]) < 4 {
			m[k] = append(m[k], r)
		} else if len(m[k]) < maxReps && c&(c-1) == 0 { // powers of two
			m[k] = append(m[k], r)
		}
	}
	var a alphabet
	for k := range m {
		a.keys = append(a.keys, k)
	}
	sort.Strings(a.keys)
	for _, k := range a.keys {
		a.reps = append(a.reps, m[k])
	}
	return a
}

func kindAlphabet(kind byte) alphabet {
	switch kind {
	case 'j':
		return buildAlphabet(func(r rune) string {
			return fmt.Sprint(lineTuple(r), graphTuple(r), wordTuple(r))
		})
	default:
		return buildAlphabet(func(r rune) string { return fmt.Sprint(tupleFor(kind, r)) })
	}
}

type segEvent struct {
	K  string     `json:"k"`            // l, g, w
	S  []segTuple `json:"s"`            // class tuples (facts)
	B  []int      `json:"b"`            // observed flags on the re-used segmenter, positions 0..n
	F  []int      `json:"f"`            // same, on a fresh segmenter
	It [][2]int   `json:"it"`           // iterator segments [offset, length] on the re-used segmenter
	R  []int      `json:"r,omitempty"`  // the runes (for replay / diagnosis)
	Id string     `json:"id,omitempty"` // scenario key
}

type segDriver struct {
	reused segmenter.Segmenter
	buf    []rune // the caller-owned input buffer of the re-used segmenter
	rng    *rand.Rand
}

func flagsOf(seg *segmenter.Segmenter, kind byte, n int) []int {
	at := segmenter.VerifAttributes(seg)
	out := make([]int, n+1)
	for i := 0; i <= n && i < len(at); i++ {
		a := at[i]
		switch kind {
		case 'l':
			if a&2 != 0 {
				out[i] = 2
			} else if a&1 != 0 {
				out[i] = 1
			}
		case 'g':
			if a&4 != 0 {
				out[i] = 1
			}
		case 'w':
			if a&8 != 0 {
				out[i] = 1
			}
		}
	}
	return out
}

func itOf(seg *segmenter.Segmenter, kind byte) (out [][2]int, mand []int) {
	out = [][2]int{}
	switch kind {
	case 'l':
		it := seg.LineIterator()
		for it.Next() {
			l := it.Line()
			out = append(out, [2]int{l.Offset, len(l.Text)})
			m := 0
			if l.IsMandatoryBreak {
				m = 1
			}
			mand = append(mand, m)
			if len(out) > 1<<20 {
				break
			}
		}
	case 'g':
		it := seg.GraphemeIterator()
		for it.Next() {
			g := it.Grapheme()
			out = append(out, [2]int{g.Offset, len(g.Text)})
			if len(out) > 1<<20 {
				break
			}
		}
	case 'w':
		it := seg.WordIterator()
		for it.Next() {
			g := it.Word()
			out = append(out, [2]int{g.Offset, len(g.Text)})
			if len(out) > 1<<20 {
				break
			}
		}
	}
	return
}

// observe runs the real segmenter on text (re-used object, then a fresh one) and emits one
// event per requested kind. For lines the iterator's IsMandatoryBreak is folded into It as
// a third component through a parallel list M.
type segEventL struct {
	segEvent
	M []int `json:"m,omitempty"` // per line segment: IsMandatoryBreak
}

func (d *segDriver) observe(enc *json.Encoder, text []rune, kinds string, withRunes bool) {
	// history: the re-used segmenter has processed every earlier string of this shard
	// ... and receives its input in a caller-owned buffer that is edited in place between calls (same
	// backing array, and the same length whenever consecutive strings are equally long)
	d.buf = append(d.buf[:0], text...)
	d.reused.Init(d.buf)
	var fresh segmenter.Segmenter
	fresh.Init(text)
	n := len(text)
	for i := 0; i < len(kinds); i++ {
		k := kinds[i]
		ev := segEventL{}
		ev.K = string(k)
		ev.S = make([]segTuple, n)
		for j, r := range text {
			ev.S[j] = tupleFor(k, r)
		}
		ev.B = flagsOf(&d.reused, k, n)
		ev.F = flagsOf(&fresh, k, n)
		ev.It, ev.M = itOf(&d.reused, k)
		if withRunes {
			ev.R = make([]int, n)
			for j, r := range text {
				ev.R[j] = int(r)
			}
		}
		enc.Encode(ev)
	}
}

type shardWriter struct {
	files []*os.File
	bufs  []*bufio.Writer
	encs  []*json.Encoder
	n     int
}

func newShardWriter(prefix string, n int) *shardWriter {
	sw := &shardWriter{}
	for i := 0; i < n; i++ {
		f, err := os.Create(fmt.Sprintf("%s.%02d.ndjson", prefix, i))
		if err != nil {
			panic(err)
		}
		b := bufio.NewWriterSize(f, 1<<20)
		sw.files = append(sw.files, f)
		sw.bufs = append(sw.bufs, b)
		sw.encs = append(sw.encs, json.NewEncoder(b))
	}
	return sw
}

func (sw *shardWriter) enc() *json.Encoder {
	e := sw.encs[sw.n%len(sw.encs)]
	sw.n++
	return e
}

func (sw *shardWriter) close() {
	for i := range sw.files {
		sw.bufs[i].Flush()
		sw.files[i].Close()
	}
}

func seedFromEnv() int64 {
	s, _ := strconv.ParseInt(os.Getenv("VERIF_SEED"), 10, 64)
	return s
}

func parseConf(path string) (texts [][]rune, marks [][]int, err error) {
	f, err := os.Open(path)
	if err != nil {
		return nil, nil, err
	}
	defer f.Close()
	sc := bufio.NewScanner(f)
	sc.Buffer(make([]byte, 1<<20), 1<<20)
	for sc.Scan() {
		line := sc.Text()
		if i := strings.Index(line, "#"); i >= 0 {
			line = line[:i]
		}
		line = strings.TrimSpace(line)
		if line == "" {
			continue
		}
		var rs []rune
		var mk []int
		for _, f := range strings.Fields(line) {
			switch f {
			case "÷":
				mk = append(mk, 1)
			case "×":
				mk = append(mk, 0)
			default:
				v, err := strconv.ParseUint(f, 16, 32)
				if err != nil {
					return nil, nil, err
				}
				rs = append(rs, rune(v))
			}
		}
		texts = append(texts, rs)
		marks = append(marks, mk)
	}
	return texts, marks, sc.Err()
}

func segMain(args []string) error {
	if len(args) == 0 {
		return fmt.Errorf("seg: missing sub-command")
	}
	seed := seedFromEnv()
	switch args[0] {
	case "alphabets":
		// print sizes of the class-tuple alphabets (all code points)
		out := map[string]interface{}{}
		for _, k := range []byte{'l', 'g', 'w', 'j'} {
			a := kindAlphabet(k)
			out[string(k)] = len(a.keys)
		}
		return json.NewEncoder(os.Stdout).Encode(out)

	case "conf":
		// seg conf <kind> <conformance file> : spec self-validation input. b = the file's marks
		// (0/1; for lines mandatory is not distinguished, conf mode normalises 2 to 1)
		kind := args[1][0]
		texts, marks, err := parseConf(args[2])
		if err != nil {
			return err
		}
		w := bufio.NewWriter(os.Stdout)
		defer w.Flush()
		enc := json.NewEncoder(w)
		for i, t := range texts {
			ev := segEvent{K: "c" + string(kind), S: make([]segTuple, len(t)), B: marks[i], F: marks[i], It: [][2]int{}}
			for j, r := range t {
				ev.S[j] = tupleFor(kind, r)
				ev.R = append(ev.R, int(r))
			}
			enc.Encode(ev)
		}
		return nil

	case "enum":
		// seg enum <kind l|g|w|j> <n> <prefix> <shards> : all sequences of length 1..n over the
		// kind's alphabet; representative rune per occurrence chosen by seed.
		kind := args[1][0]
		n, _ := strconv.Atoi(args[2])
		prefix := args[3]
		shards, _ := strconv.Atoi(args[4])
		a := kindAlphabet(kind)
		minLen := 1
		if len(args) > 5 {
			// restricted alphabet: only tuples whose class is listed; only sequences of exactly n
			keep := map[string]bool{}
			for _, c := range args[5:] {
				keep[c] = true
			}
			var b alphabet
			for i, k := range a.keys {
				if keep[tupleFor(kind, a.reps[i][0]).C] {
					b.keys = append(b.keys, k)
					b.reps = append(b.reps, a.reps[i])
				}
			}
			a = b
			minLen = n
		}
		sw := newShardWriter(prefix, shards)
		defer sw.close()
		drv := make([]*segDriver, shards)
		for i := range drv {
			drv[i] = &segDriver{}
		}
		rng := rand.New(rand.NewSource(seed*7919 + int64(kind)))
		kinds := string(kind)
		if kind == 'j' {
			kinds = "lgw"
		}
		total := 0
		for ln := minLen; ln <= n; ln++ {
			idx := make([]int, ln)
			text := make([]rune, ln)
			for {
				for p, i := range idx {
					reps := a.reps[i]
					text[p] = reps[rng.Intn(len(reps))]
				}
				sh := total % shards
				drv[sh].observe(sw.encs[sh], text, kinds, true)
				total++
				k := ln - 1
				for k >= 0 {
					idx[k]++
					if idx[k] < len(a.keys) {
						break
					}
					idx[k] = 0
					k--
				}
				if k < 0 {
					break
				}
			}
		}
		fmt.Printf("{\"strings\": %d, \"alphabet\": %d}\n", total, len(a.keys))
		return nil

	case "rand":
		// seg rand <count> <maxlen> <prefix> <shards>: random long strings over the joint alphabet,
		// biased towards the classes with long-range rules; all three kinds observed.
		count, _ := strconv.Atoi(args[1])
		maxlen, _ := strconv.Atoi(args[2])
		prefix := args[3]
		shards, _ := strconv.Atoi(args[4])
		a := kindAlphabet('j')
		// bias set: runes whose presence triggers look-behind rules
		hot := []rune{' ', ' ', 0x0301, 0x200D, 0x200D, 0x1F1E6, 0x1F1E7, '1', '2', ',', '.', '"', '\'', '(', ')', '-', 0x2014,
			0x1F600, 0x1F3FB, 0x2764, 0x1F9D1, '\n', '\r', 0x200B, 0x2060, 0x00A0, 0x05D0, '$', '%', 0x3041, 0x30A2, 0x1100, 0x1161, 0x11A8,
			0xAC00, 0xAC01, 0x0E01, 0x0E31, 0x0600, 0x0903, 0xFE0F, 0x20E3, 'a', 'b', '_', ':', 0xFF08, 0xFF09, 0x3001, 0x1F1E8, 0x378}
		rng := rand.New(rand.NewSource(seed*104729 + 17))
		sw := newShardWriter(prefix, shards)
		defer sw.close()
		drv := make([]*segDriver, shards)
		for i := range drv {
			drv[i] = &segDriver{}
		}
		for c := 0; c < count; c++ {
			ln := 1 + rng.Intn(maxlen)
			text := make([]rune, ln)
			for p := range text {
				if rng.Intn(100) < 55 {
					text[p] = hot[rng.Intn(len(hot))]
				} else {
					reps := a.reps[rng.Intn(len(a.keys))]
					text[p] = reps[rng.Intn(len(reps))]
				}
			}
			sh := c % shards
			drv[sh].observe(sw.encs[sh], text, "lgw", true)
		}
		fmt.Printf("{\"strings\": %d, \"alphabet\": %d}\n", count, len(a.keys))
		return nil

	case "text":
		// seg text <prefix> <shards> <file>...: real texts (one paragraph per line of each file)
		prefix := args[1]
		shards, _ := strconv.Atoi(args[2])
		sw := newShardWriter(prefix, shards)
		defer sw.close()
		drv := make([]*segDriver, shards)
		for i := range drv {
			drv[i] = &segDriver{}
		}
		c := 0
		for _, fn := range args[3:] {
			b, err := os.ReadFile(fn)
			if err != nil {
				return err
			}
			for _, line := range strings.Split(string(b), "\n") {
				rs := []rune(line)
				if len(rs) == 0 {
					continue
				}
				if len(rs) > 80 {
					rs = rs[:80]
				}
				sh := c % shards
				drv[sh].observe(sw.encs[sh], rs, "lgw", true)
				c++
			}
		}
		fmt.Printf("{\"strings\": %d}\n", c)
		return nil

	case "replay":
		// seg replay <hex runes...> : print the observation for one string
		var text []rune
		for _, h := range args[1:] {
			v, err := strconv.ParseInt(h, 0, 32)
			if err != nil {
				return err
			}
			text = append(text, rune(v))
		}
		d := &segDriver{}
		d.observe(json.NewEncoder(os.Stdout), text, "lgw", true)
		return nil
	}
	return fmt.Errorf("seg: unknown sub-command %q", args[0])
}

func init() { cmds["seg"] = segMain }
