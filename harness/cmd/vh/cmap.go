package main

// Engine "cmap" (C11): observes a character map through its three windows (point lookups over
// all code points, Iter, coverage built by fontscan) and the RuneSet container under histories.
// The observations are logged in run-length form; TLC (CmapV.tla, RuneSetV.tla) decides.

import (
	"bufio"
	"encoding/binary"
	"encoding/json"
	"fmt"
	"os"
	"sort"
	"strconv"
	"sync"

	"github.com/go-text/typesetting/font"
	"github.com/go-text/typesetting/fontscan"
	"github.com/go-text/typesetting/language"
)

const maxRune = 0x10FFFF

type cmEvent struct {
	Id          string   `json:"id"`
	Cls         string   `json:"cls"`
	P           string   `json:"p"`
	Look        [][4]int `json:"look"`
	Iter        [][4]int `json:"iter"`
	Itercount   int      `json:"itercount"`
	Cov         [][2]int `json:"cov"`
	Hasrr       bool     `json:"hasrr"`
	Rr          [][2]int `json:"rr"`
	Scripts     []string `json:"scripts"`
	Lookscripts []string `json:"lookscripts"`
	Covf        [][2]int `json:"covf"`     // coverage built without a threaded buffer
	Scriptsf    []string `json:"scriptsf"` // its script set
}

// segments of a partial function given as gid per rune (-1 = unmapped)
func funcSegments(g []int32) [][4]int {
	out := [][4]int{}
	n := len(g)
	for r := 0; r < n; {
		if g[r] < 0 {
			r++
			continue
		}
		lo, g0 := r, int(g[r])
		d := -1
		hi := lo
		for hi+1 < n && g[hi+1] >= 0 {
			nx := int(g[hi+1])
			if d == -1 {
				if nx == g0 {
					d = 0
				} else if nx == g0+1 {
					d = 1
				} else {
					break
				}
			} else if nx != g0+d*(hi+1-lo) {
				break
			}
			hi++
		}
		if d == -1 {
			d = 0
		}
		out = append(out, [4]int{lo, hi, g0, d})
		r = hi + 1
	}
	return out
}

func setRanges(in []bool) [][2]int {
	out := [][2]int{}
	for r := 0; r < len(in); {
		if !in[r] {
			r++
			continue
		}
		lo := r
		for r+1 < len(in) && in[r+1] {
			r++
		}
		out = append(out, [2]int{lo, r})
		r++
	}
	return out
}

var (
	covBufMu sync.Mutex
	covBufs  = map[*json.Encoder][][2]rune{}
)

func observeCmap(enc *json.Encoder, id, cls string, face *font.Face) {
	ev := cmEvent{Id: id, Cls: cls, P: "ok", Look: [][4]int{}, Iter: [][4]int{}, Cov: [][2]int{}, Rr: [][2]int{}, Scripts: []string{}, Lookscripts: []string{}, Covf: [][2]int{}, Scriptsf: []string{}}
	func() {
		defer func() {
			if r := recover(); r != nil {
				ev.P = "panic: " + fmt.Sprint(r)
			}
		}()
		look := make([]int32, maxRune+1)
		lsc := map[string]bool{}
		for r := rune(0); r <= maxRune; r++ {
			if g, ok := face.NominalGlyph(r); ok {
				look[r] = int32(g)
				lsc[scriptName(language.LookupScript(r))] = true
			} else {
				look[r] = -1
			}
		}
		ev.Look = funcSegments(look)
		for s := range lsc {
			ev.Lookscripts = append(ev.Lookscripts, s)
		}
		sort.Strings(ev.Lookscripts)
		it := make([]int32, maxRune+1)
		for i := range it {
			it[i] = -1
		}
		iter := face.Cmap.Iter()
		for iter.Next() {
			r, g := iter.Char()
			ev.Itercount++
			if r >= 0 && r <= maxRune {
				it[r] = int32(g)
			}
			if ev.Itercount > 3000000 {
				ev.P = "iter runaway"
				return
			}
		}
		ev.Iter = funcSegments(it)
		// the range buffer is threaded from one cmap of the shard to the next, as the directory scan does
		covBufMu.Lock()
		buf := covBufs[enc]
		covBufMu.Unlock()
		rs, ss, buf := fontscan.VerifCoveragesBuf(face.Cmap, buf)
		covBufMu.Lock()
		covBufs[enc] = buf
		covBufMu.Unlock()
		cov := make([]bool, maxRune+1)
		for r := rune(0); r <= maxRune; r++ {
			cov[r] = rs.Contains(r)
		}
		ev.Cov = setRanges(cov)
		// ... and built once more without a buffer
		rsf, ssf := fontscan.VerifCoverages(face.Cmap)
		for r := rune(0); r <= maxRune; r++ {
			cov[r] = rsf.Contains(r)
		}
		ev.Covf = setRanges(cov)
		for _, s := range ssf {
			ev.Scriptsf = append(ev.Scriptsf, scriptName(s))
		}
		sort.Strings(ev.Scriptsf)
		for _, s := range ss {
			ev.Scripts = append(ev.Scripts, scriptName(s))
		}
		sort.Strings(ev.Scripts)
		if rr, ok := face.Cmap.(font.CmapRuneRanger); ok {
			ev.Hasrr = true
			for _, x := range rr.RuneRanges(nil) {
				ev.Rr = append(ev.Rr, [2]int{int(x[0]), int(x[1])})
			}
		}
	}()
	enc.Encode(ev)
}

// ---- synthetic format 4 subtables

type seg4 struct {
	start, end, delta uint16
	indexed           bool
	glyphs            []uint16
}

func buildFormat4(segs []seg4) []byte {
	n := len(segs)
	var garr []uint16
	offs := make([]uint16, n)
	for i, s := range segs {
		if s.indexed {
			offs[i] = uint16((n - i + len(garr)) * 2)
			garr = append(garr, s.glyphs...)
		}
	}
	L := 16 + 8*n + 2*len(garr)
	sub := make([]byte, L)
	binary.BigEndian.PutUint16(sub[0:], 4)
	binary.BigEndian.PutUint16(sub[2:], uint16(L))
	binary.BigEndian.PutUint16(sub[6:], uint16(2*n))
	p := 14
	for _, s := range segs {
		binary.BigEndian.PutUint16(sub[p:], s.end)
		p += 2
	}
	p += 2
	for _, s := range segs {
		binary.BigEndian.PutUint16(sub[p:], s.start)
		p += 2
	}
	for _, s := range segs {
		binary.BigEndian.PutUint16(sub[p:], s.delta)
		p += 2
	}
	for i := range segs {
		binary.BigEndian.PutUint16(sub[p:], offs[i])
		p += 2
	}
	for _, g := range garr {
		binary.BigEndian.PutUint16(sub[p:], g)
		p += 2
	}
	return cmapWithSubtable(3, 1, sub)
}

func buildFormat12(groups [][3]uint32, format uint16) []byte {
	n := len(groups)
	sub := make([]byte, 16+12*n)
	binary.BigEndian.PutUint16(sub[0:], format)
	binary.BigEndian.PutUint32(sub[4:], uint32(len(sub)))
	binary.BigEndian.PutUint32(sub[12:], uint32(n))
	for i, g := range groups {
		binary.BigEndian.PutUint32(sub[16+12*i:], g[0])
		binary.BigEndian.PutUint32(sub[16+12*i+4:], g[1])
		binary.BigEndian.PutUint32(sub[16+12*i+8:], g[2])
	}
	return cmapWithSubtable(3, 10, sub)
}

func buildFormat6(first uint16, glyphs []uint16) []byte {
	sub := make([]byte, 10+2*len(glyphs))
	binary.BigEndian.PutUint16(sub[0:], 6)
	binary.BigEndian.PutUint16(sub[2:], uint16(len(sub)))
	binary.BigEndian.PutUint16(sub[6:], first)
	binary.BigEndian.PutUint16(sub[8:], uint16(len(glyphs)))
	for i, g := range glyphs {
		binary.BigEndian.PutUint16(sub[10+2*i:], g)
	}
	return cmapWithSubtable(3, 1, sub)
}

func synthCmaps(f func(id, cls string, cmap []byte)) {
	bounds := []uint16{0, 1, 0x20, 0xFF, 0x100, 0x1FF, 0xFFFE, 0xFFFF}
	deltas := []uint16{0, 1, 0xFFFF, 0x8000}
	var one []seg4
	for _, s := range bounds {
		for _, e := range bounds {
			if e < s || int(e)-int(s) > 0x120 {
				continue
			}
			for _, d := range deltas {
				one = append(one, seg4{start: s, end: e, delta: d})
			}
			if int(e)-int(s) <= 3 {
				L := int(e) - int(s) + 1
				for _, pat := range [][]uint16{{5, 6, 7, 8}, {0, 6, 0, 8}, {0, 0, 0, 0}, {0xFFFF, 1, 0, 2}} {
					one = append(one, seg4{start: s, end: e, delta: 0, indexed: true, glyphs: pat[:L]})
					one = append(one, seg4{start: s, end: e, delta: 3, indexed: true, glyphs: pat[:L]})
				}
			}
		}
	}
	sentinels := []*seg4{nil, {start: 0xFFFF, end: 0xFFFF, delta: 1}, {start: 0xFFFF, end: 0xFFFF, delta: 0, indexed: true, glyphs: []uint16{0}}}
	feat := func(segs []seg4) string {
		c := "f4"
		sorted := true
		for i := range segs {
			if i > 0 && segs[i].start <= segs[i-1].end {
				sorted = false
			}
			if segs[i].indexed {
				c += "-indexed"
				for _, g := range segs[i].glyphs {
					if g == 0 {
						c += "-zeroglyph"
						break
					}
				}
				for _, g := range segs[i].glyphs {
					if g != 0 && int(g)+int(segs[i].delta) > 0xFFFF {
						c += "-deltaoverflow"
						break
					}
				}
			}
		}
		if !sorted {
			c += "-unsorted"
		}
		return c
	}
	for _, a := range one {
		for si, st := range sentinels {
			segs := []seg4{a}
			if st != nil {
				if a.end == 0xFFFF {
					continue
				}
				segs = append(segs, *st)
			}
			f(fmt.Sprintf("f4:%+v/s%d", a, si), feat(segs), buildFormat4(segs))
		}
	}
	small := []seg4{{start: 1, end: 2, delta: 1}, {start: 2, end: 3, delta: 5}, {start: 3, end: 3, delta: 0xFFFF}, {start: 0xFF, end: 0x100, delta: 0},
		{start: 0x20, end: 0x21, indexed: true, glyphs: []uint16{0, 9}}, {start: 0x101, end: 0x1FF, delta: 2}, {start: 0x30, end: 0x32, indexed: true, glyphs: []uint16{4, 5, 6}}}
	for i, a := range small {
		for j, b := range small {
			segs := []seg4{a, b, {start: 0xFFFF, end: 0xFFFF, delta: 1}}
			f(fmt.Sprintf("f4pair:%d,%d", i, j), feat(segs), buildFormat4(segs))
		}
	}
	// format 12 / 13: groups with ends at page and plane boundaries
	ends := []uint32{0, 0xFF, 0x100, 0xFFFF, 0x10000, 0x1FFFF, 0x10FFFF}
	for _, format := range []uint16{12, 13} {
		for _, s := range ends {
			for _, e := range ends {
				if e < s || e-s > 0x400 {
					continue
				}
				for _, g := range []uint32{1, 0, 50} {
					f(fmt.Sprintf("f%d:[%x,%x,%d]", format, s, e, g), fmt.Sprintf("f%d", format), buildFormat12([][3]uint32{{s, e, g}}, format))
					cls2 := fmt.Sprintf("f%d-2groups", format)
					if e >= 0x20000 {
						cls2 += "-unsorted"
					}
					f(fmt.Sprintf("f%d:[%x,%x,%d]+[20000,20010]", format, s, e, g), cls2, buildFormat12([][3]uint32{{s, e, g}, {0x20000, 0x20010, 7}}, format))
				}
			}
		}
	}
	// format 6
	for _, first := range []uint16{0, 0x20, 0xFF, 0xFFF0} {
		for _, gl := range [][]uint16{{1, 2, 3}, {0, 2, 0}, {}, {7}} {
			f(fmt.Sprintf("f6:%x/%v", first, gl), "f6", buildFormat6(first, gl))
		}
	}
}

type rsObs struct {
	T        int    `json:"t"`
	Ev       string `json:"ev"`
	R        int    `json:"r"`
	Contains []int  `json:"contains"`
	Len      int    `json:"len"`
	Rterr    string `json:"rterr"`
	Rt       []int  `json:"rt"`
	Rtlen    int    `json:"rtlen"`
	Rtincl   bool   `json:"rtincl"`
	Inclself bool   `json:"inclself"`
	Inclplus bool   `json:"inclplus"`
	Inclsub  []int  `json:"inclsub"`
}

var rsProbes = []rune{0, 1, 31, 32, 255, 256, 257, 65535, 65536, 1114111}

func runeSetHistory(enc *json.Encoder, t int, ops []struct {
	Op string `json:"op"`
	R  int    `json:"r"`
}) {
	enc.Encode(map[string]interface{}{"t": t, "ev": "New"})
	var rs fontscan.RuneSet
	for _, op := range ops {
		if op.Op == "Add" {
			rs.Add(rune(op.R))
		} else {
			rs.Delete(rune(op.R))
		}
		o := rsObs{T: t, Ev: op.Op, R: op.R, Contains: []int{}, Rt: []int{}, Inclsub: []int{}}
		for _, p := range rsProbes {
			if rs.Contains(p) {
				o.Contains = append(o.Contains, int(p))
			}
		}
		o.Len = rs.Len()
		back, _, err := fontscan.VerifRuneSetDeserialize(fontscan.VerifRuneSetSerialize(rs))
		if err != nil {
			o.Rterr = err.Error()
		} else {
			for _, p := range rsProbes {
				if back.Contains(p) {
					o.Rt = append(o.Rt, int(p))
				}
			}
			o.Rtlen = back.Len()
			// the set read back is the same set: mutual inclusion with the original and with itself (the
			// page structure of a deserialized set must be as usable as the original's)
			o.Rtincl = fontscan.VerifRuneSetIncludes(back, rs) && fontscan.VerifRuneSetIncludes(rs, back) && fontscan.VerifRuneSetIncludes(back, back)
			for _, p := range rsProbes {
				var single fontscan.RuneSet
				single.Add(p)
				if fontscan.VerifRuneSetIncludes(back, single) != back.Contains(p) {
					o.Rtincl = false
				}
			}
		}
		o.Inclself = fontscan.VerifRuneSetIncludes(rs, rs)
		// a strict superset: add a rune that is certainly absent
		var plus fontscan.RuneSet
		for _, p := range rsProbes {
			if rs.Contains(p) {
				plus.Add(p)
			}
		}
		for _, extra := range []rune{0x4E00, 2, 0x10001} {
			if !rs.Contains(extra) {
				plus.Add(extra)
				break
			}
		}
		o.Inclplus = fontscan.VerifRuneSetIncludes(rs, plus)
		for _, p := range rsProbes {
			var single fontscan.RuneSet
			single.Add(p)
			if fontscan.VerifRuneSetIncludes(rs, single) {
				o.Inclsub = append(o.Inclsub, int(p))
			}
		}
		enc.Encode(o)
	}
}

// runJobs runs the jobs on one goroutine per shard (job i goes to shard i % shards).
func runJobs(sw *shardWriter, jobs []func(enc *json.Encoder)) {
	var wg sync.WaitGroup
	for sh := range sw.encs {
		wg.Add(1)
		go func(sh int) {
			defer wg.Done()
			for i := sh; i < len(jobs); i += len(sw.encs) {
				jobs[i](sw.encs[sh])
			}
		}(sh)
	}
	wg.Wait()
}

func cmapMain(args []string) error {
	if len(args) < 1 {
		return fmt.Errorf("cmap: missing sub-command")
	}
	seed := seedFromEnv()
	switch args[0] {
	case "corpus":
		// cmap corpus <maxFiles> <prefix> <shards>
		max, _ := strconv.Atoi(args[1])
		shards, _ := strconv.Atoi(args[3])
		sw := newShardWriter(args[2], shards)
		defer sw.close()
		nf, nfiles, rejected := 0, 0, 0
		var jobs []func(enc *json.Encoder)
		for _, cf := range sampleCorpus(max, seed) {
			faces, err, pan := loadFaces(cf.Data)
			nfiles++
			if err != nil || pan != nil || faces == nil {
				rejected++
				continue
			}
			for fi, f := range faces {
				id, f := fmt.Sprintf("%s#%d", cf.ID, fi), f
				jobs = append(jobs, func(enc *json.Encoder) { observeCmap(enc, id, "corpus", f) })
				nf++
			}
		}
		runJobs(sw, jobs)
		fmt.Printf("{\"files\": %d, \"faces\": %d, \"rejected\": %d}\n", nfiles, nf, rejected)
		return nil
	case "synth":
		shards, _ := strconv.Atoi(args[2])
		sw := newShardWriter(args[1], shards)
		defer sw.close()
		n, rej := 0, 0
		var jobs []func(enc *json.Encoder)
		synthCmaps(func(id, cls string, cmap []byte) {
			var ft *font.Font
			var err error
			func() {
				defer func() {
					if r := recover(); r != nil {
						err = fmt.Errorf("panic: %v", r)
					}
				}()
				ft, err = fontFromCmap(cmap, 100)
			}()
			if err != nil {
				if len(err.Error()) > 6 && err.Error()[:6] == "panic:" {
					msg := err.Error()
					jobs = append(jobs, func(enc *json.Encoder) { enc.Encode(cmEvent{Id: id, Cls: cls, P: msg}) })
					n++
				} else {
					rej++
				}
				return
			}
			jobs = append(jobs, func(enc *json.Encoder) { observeCmap(enc, id, cls, font.NewFace(ft)) })
			n++
		})
		runJobs(sw, jobs)
		fmt.Printf("{\"cmaps\": %d, \"rejected\": %d}\n", n, rej)
		return nil
	case "runeset":
		// cmap runeset <histories.ndjson> <prefix> <shards>
		f, err := os.Open(args[1])
		if err != nil {
			return err
		}
		defer f.Close()
		shards, _ := strconv.Atoi(args[3])
		sw := newShardWriter(args[2], shards)
		defer sw.close()
		sc := bufio.NewScanner(f)
		sc.Buffer(make([]byte, 1<<20), 1<<24)
		t := 0
		for sc.Scan() {
			var h struct {
				Ops []struct {
					Op string `json:"op"`
					R  int    `json:"r"`
				} `json:"ops"`
			}
			if err := json.Unmarshal(sc.Bytes(), &h); err != nil {
				return err
			}
			runeSetHistory(sw.encs[t%shards], t, h.Ops)
			t++
		}
		fmt.Printf("{\"histories\": %d}\n", t)
		return nil
	}
	return fmt.Errorf("cmap: unknown sub-command")
}

func init() { cmds["cmap"] = cmapMain }
