package main

// Engine "conc" (C17): runs TLC-generated program sets with many goroutines sharing parsed fonts
// (private faces, shapers, segmenters, font maps), first each program alone to obtain reference
// digests, then all concurrently and free-running. Built with -race: data race reports go to the
// GORACE log, and are turned into Race events by the runner. TLC (ConcV.tla) decides.

import (
	"bufio"
	"bytes"
	"encoding/json"
	"fmt"
	"io"
	"log"
	"os"
	"runtime"
	"strconv"
	"sync"

	td "github.com/go-text/typesetting-utils/opentype"
	"github.com/go-text/typesetting/di"
	"github.com/go-text/typesetting/font"
	"github.com/go-text/typesetting/fontscan"
	"github.com/go-text/typesetting/language"
	"github.com/go-text/typesetting/shaping"
	"golang.org/x/image/math/fixed"
)

type concOp struct {
	Op string `json:"op"`
	F  int    `json:"f"`
	W  int    `json:"w"`
	T  int    `json:"t"`
	G  int    `json:"g"`
	R  int    `json:"r"`
}

var concFonts []*font.Font

func loadConcFonts() error {
	for _, p := range []string{"common/Commissioner-VF.ttf", "common/Raleway-v4020-Regular.otf", "morx/Eight.ttf", "common/Roboto-BoldItalic.ttf", "bitmap/NotoColorEmoji.ttf", "toys/CFF2-VF.otf"} {
		b, err := td.Files.ReadFile(p)
		if err != nil {
			return err
		}
		f, err := font.ParseTTF(bytes.NewReader(b))
		if err != nil {
			return fmt.Errorf("%s: %v", p, err)
		}
		concFonts = append(concFonts, f.Font)
	}
	return nil
}

var concTexts = map[int][]rune{1: []rune("Hello fi office world 123"), 2: []rune("abc אבג 123 (مرحبا) 日本")}

// runProgram executes one program on private objects over the shared fonts; returns one digest per step
func runProgram(ops []concOp, shift int) (out []string, status []string) {
	face := font.NewFace(concFonts[shift%len(concFonts)])
	var sh shaping.HarfbuzzShaper
	var seg shaping.Segmenter
	fm := fontscan.NewFontMap(log.New(io.Discard, "", 0))
	fm.AddFace(face, fontscan.Location{File: "x"}, font.Description{Family: "fam", Aspect: font.Aspect{Style: font.StyleNormal, Weight: 400, Stretch: 1}})
	for _, op := range ops {
		d, p := guard(func() string {
			switch op.Op {
			case "NewFace":
				face = font.NewFace(concFonts[(op.F+shift)%len(concFonts)])
				fm.AddFace(face, fontscan.Location{File: fmt.Sprint("y", op.F)}, font.Description{Family: "fam", Aspect: font.Aspect{Style: font.StyleNormal, Weight: 400, Stretch: 1}})
				return digestOf(face.Upem())
			case "SetVariations":
				face.SetVariations([]font.Variation{{Tag: wghtTag, Value: float32(op.W)}})
				return digestOf(face.Coords())
			case "Shape":
				text := concTexts[op.T]
				o := sh.Shape(shaping.Input{Text: text, RunEnd: len(text), Face: face, Size: fixed.I(14), Direction: di.DirectionLTR, Script: language.Latin, Language: "en"})
				return outputDigest(&o)
			case "Extents":
				e, ok := face.GlyphExtents(font.GID(op.G))
				return digestOf(e, ok, face.HorizontalAdvance(font.GID(op.G)), face.GlyphName(font.GID(op.G)))
			case "Data":
				return digestOf(face.GlyphData(font.GID(op.G)))
			case "Split":
				text := concTexts[op.T]
				ins := seg.Split(shaping.Input{Text: text, RunEnd: len(text), Size: fixed.I(12), Language: "en", Direction: di.DirectionLTR}, fm)
				var b bytes.Buffer
				for _, in := range ins {
					fmt.Fprintf(&b, "%d-%d,%v,%v;", in.RunStart, in.RunEnd, in.Direction, in.Script)
				}
				return digestOf(b.String())
			default:
				fm.SetQuery(fontscan.Query{Families: []string{"fam"}})
				f := fm.ResolveFace(rune(op.R))
				return digestOf(f != nil)
			}
		})
		out = append(out, d)
		status = append(status, p)
	}
	return
}

func concMain(args []string) error {
	// conc run <programsets.ndjson> <goroutines> <out.ndjson>
	if len(args) < 4 || args[0] != "run" {
		return fmt.Errorf("conc: usage: conc run <sets> <goroutines> <out>")
	}
	if err := loadConcFonts(); err != nil {
		return err
	}
	n, _ := strconv.Atoi(args[2])
	f, err := os.Open(args[1])
	if err != nil {
		return err
	}
	defer f.Close()
	of, err := os.Create(args[3])
	if err != nil {
		return err
	}
	defer of.Close()
	w := bufio.NewWriter(of)
	defer w.Flush()
	enc := json.NewEncoder(w)
	sc := bufio.NewScanner(f)
	sc.Buffer(make([]byte, 1<<20), 1<<24)
	sets := 0
	for sc.Scan() {
		var progs [][]concOp
		if err := json.Unmarshal(sc.Bytes(), &progs); err != nil {
			return err
		}
		sets++
		// reference: every goroutine's program alone
		ref := make([][]string, n)
		for g := 0; g < n; g++ {
			ref[g], _ = runProgram(progs[g%len(progs)], g)
		}
		// concurrent, free running (no hand-offs that would order the goroutines)
		got := make([][]string, n)
		st := make([][]string, n)
		var wg sync.WaitGroup
		start := make(chan struct{})
		for g := 0; g < n; g++ {
			wg.Add(1)
			go func(g int) {
				defer wg.Done()
				<-start
				if g%3 == 0 {
					runtime.Gosched()
				}
				got[g], st[g] = runProgram(progs[g%len(progs)], g)
			}(g)
		}
		close(start)
		wg.Wait()
		enc.Encode(map[string]interface{}{"ev": "Set", "set": sets, "programs": progs, "goroutines": n})
		for g := 0; g < n; g++ {
			for i := range got[g] {
				enc.Encode(map[string]interface{}{"ev": "Step", "set": sets, "g": g, "i": i, "d": got[g][i], "sd": ref[g][i], "p": st[g][i]})
			}
		}
	}
	fmt.Printf("{\"sets\": %d, \"goroutines\": %d}\n", sets, n)
	return nil
}

func init() { cmds["conc"] = concMain }
