package main

// Engine "conc" (C17): runs TLC-generated program sets with many goroutines sharing parsed fonts
// (private faces, shapers, segmenters, font maps), first each program alone to obtain reference
// digests, then all concurrently and free-running. Built with -race: data race reports go to the
// GORACE log, and are turned into Race events by the runner. TLC (ConcV.tla) decides.

import (
	"bufio"
	"bytes"
	"encoding/json"
	"fmt"
	"io"
	"log"
	"os"
	"runtime"
	"strconv"
	"sync"
	"time"

	"github.com/go-text/typesetting/di"
	"github.com/go-text/typesetting/font"
	ot "github.com/go-text/typesetting/font/opentype"
	"github.com/go-text/typesetting/font/opentype/tables"
	"github.com/go-text/typesetting/fontscan"
	"github.com/go-text/typesetting/language"
	"github.com/go-text/typesetting/shaping"
	"golang.org/x/image/math/fixed"
)

type concOp struct {
	Op string `json:"op"`
	F  int    `json:"f"`
	W  int    `json:"w"`
	T  int    `json:"t"`
	G  int    `json:"g"`
	R  int    `json:"r"`
}

var concFonts []*font.Font
var concAxes [][]tables.VariationAxisRecord // per shared font: its variation axes (a fact read from fvar)
var concOwn [][]rune                        // per shared font: runes of its own cmap (spread over the cmap), appended to the shaped texts

var concBase = []string{"ot:common/Commissioner-VF.ttf", "ot:common/Raleway-v4020-Regular.otf", "ot:morx/Eight.ttf", "ot:common/Roboto-BoldItalic.ttf", "ot:bitmap/NotoColorEmoji.ttf", "ot:toys/CFF2-VF.otf"}

// concPool groups the corpus files by the kind of shared data their first face carries (a fact read
// from the table directory): slot 0 gvar, 1 CFF, 2 AAT (morx/kerx), 3 static glyf + GSUB, 4 bitmap/colour, 5 other variable.
var concPool [6][]corpusFile
var concByID = map[string]corpusFile{}

func loadConcPool() {
	tag := func(s string) ot.Tag { return ot.MustNewTag(s) }
	for _, cf := range corpusFiles() {
		concByID[cf.ID] = cf
		lds, err := ot.NewLoaders(bytes.NewReader(cf.Data))
		if err != nil || len(lds) == 0 {
			continue
		}
		ld := lds[0]
		has := func(s string) bool { return ld.HasTable(tag(s)) }
		switch {
		case has("morx") || has("kerx"):
			concPool[2] = append(concPool[2], cf)
		case has("gvar"):
			concPool[0] = append(concPool[0], cf)
		case has("CFF2") || has("fvar"):
			concPool[5] = append(concPool[5], cf)
		case has("CFF "):
			concPool[1] = append(concPool[1], cf)
		case has("CBDT") || has("sbix") || has("EBDT") || has("COLR") || has("SVG "):
			concPool[4] = append(concPool[4], cf)
		case has("glyf") && has("GSUB"):
			concPool[3] = append(concPool[3], cf)
		}
	}
}

// setConcFont appends one shared font with its facts (own runes, axes); false when it does not parse.
func addConcFont(cf corpusFile) bool {
	faces, err, pan := loadFaces(cf.Data)
	if err != nil || pan != nil || len(faces) == 0 {
		return false
	}
	f := faces[0].Font
	concFonts = append(concFonts, f)
	all := ownRunes(font.NewFace(f), 2000)
	var own []rune
	step := len(all)/12 + 1
	for i := 0; i < len(all); i += step {
		own = append(own, all[i])
	}
	concOwn = append(concOwn, own)
	var axes []tables.VariationAxisRecord
	if lds, err := ot.NewLoaders(bytes.NewReader(cf.Data)); err == nil && len(lds) > 0 {
		if raw, err := lds[0].RawTable(ot.MustNewTag("fvar")); err == nil {
			if fv, _, err := tables.ParseFvar(raw); err == nil {
				axes = fv.FvarRecords.Axis
			}
		}
	}
	concAxes = append(concAxes, axes)
	return true
}

// loadConcFonts selects the six shared fonts of program set number set: the fixed base fonts for the
// first set, then one font per pool slot rotating through the corpus (by seed and set number).
func loadConcFonts(set int, seed int64) ([]string, error) {
	concFonts, concOwn, concAxes = nil, nil, nil
	var ids []string
	for k := 0; k < 6; k++ {
		id := ""
		if set > 1 && len(concPool[k]) > 0 {
			for try := 0; try < len(concPool[k]) && id == ""; try++ {
				cf := concPool[k][(int(seed)*13+set+try)%len(concPool[k])]
				if addConcFont(cf) {
					id = cf.ID
				}
			}
		}
		if id == "" {
			if !addConcFont(concByID[concBase[k]]) {
				return nil, fmt.Errorf("%s does not parse", concBase[k])
			}
			id = concBase[k]
		}
		ids = append(ids, id)
	}
	return ids, nil
}

var concTexts = map[int][]rune{1: []rune("Hello fi office M\u0300e\u0301 world 123"), 2: []rune("abc אבג 123 (مرحبا) 日本")}

// lazy is a step result whose digest is computed later, by the main goroutine: the goroutines of the
// concurrent phase must not call fmt / encoding/json / sha1 themselves, because the sync.Pools inside
// those packages create happens-before edges between the goroutines that hide data races in the
// library from the race detector.
type lazy func() string

func guardLazy(f func() lazy) (d lazy, p interface{}) {
	defer func() {
		if r := recover(); r != nil {
			d, p = func() string { return "panic" }, r
		}
	}()
	return f(), nil
}

var concLoc = [8]string{"y0", "y1", "y2", "y3", "y4", "y5", "y6", "y7"}

// runProgram executes one program on private objects over the shared fonts; returns one (lazy) digest per step
func runProgram(ops []concOp, shift int) (out []lazy, status []interface{}) {
	fi := shift % len(concFonts)
	face := font.NewFace(concFonts[fi])
	var sh shaping.HarfbuzzShaper
	var seg shaping.Segmenter
	fm := fontscan.NewFontMap(log.New(io.Discard, "", 0))
	fm.AddFace(face, fontscan.Location{File: "x"}, font.Description{Family: "fam", Aspect: font.Aspect{Style: font.StyleNormal, Weight: 400, Stretch: 1}})
	for _, op := range ops {
		d, p := guardLazy(func() lazy {
			switch op.Op {
			case "NewFace":
				fi = (op.F + shift) % len(concFonts)
				face = font.NewFace(concFonts[fi])
				fm.AddFace(face, fontscan.Location{File: concLoc[op.F%8]}, font.Description{Family: "fam", Aspect: font.Aspect{Style: font.StyleNormal, Weight: 400, Stretch: 1}})
				u := face.Upem()
				return func() string { return digestOf(u) }
			case "SetVariations":
				// every axis of the font to one of its ends (W < 400: minimum), wght to W when the font has no fvar
				vs := []font.Variation{{Tag: wghtTag, Value: float32(op.W)}}
				for _, ax := range concAxes[fi] {
					v := ax.Maximum
					if op.W < 400 {
						v = ax.Minimum
					}
					vs = append(vs, font.Variation{Tag: ax.Tag, Value: float32(v)})
				}
				face.SetVariations(vs)
				co := append([]font.VarCoord(nil), face.Coords()...)
				return func() string { return digestOf(co) }
			case "Shape":
				text := append(append([]rune(nil), concTexts[op.T]...), concOwn[fi]...)
				o := sh.Shape(shaping.Input{Text: text, RunEnd: len(text), Face: face, Size: fixed.I(14), Direction: di.DirectionLTR, Script: language.Latin, Language: "en"})
				return func() string { return outputDigest(&o) }
			case "Extents":
				e, ok := face.GlyphExtents(font.GID(op.G))
				adv, name := face.HorizontalAdvance(font.GID(op.G)), face.GlyphName(font.GID(op.G))
				return func() string { return digestOf(e, ok, adv, name) }
			case "Data":
				gd := face.GlyphData(font.GID(op.G))
				// JSON, not fmt: bitmap and SVG glyph data hold a pointer to their outline, which fmt prints as an address
				return func() string {
					b, err := json.Marshal(gd)
					return digestOf(string(b), err)
				}
			case "Split":
				text := concTexts[op.T]
				ins := append([]shaping.Input(nil), seg.Split(shaping.Input{Text: text, RunEnd: len(text), Size: fixed.I(12), Language: "en", Direction: di.DirectionLTR}, fm)...)
				return func() string {
					var b bytes.Buffer
					for _, in := range ins {
						fmt.Fprintf(&b, "%d-%d,%v,%v;", in.RunStart, in.RunEnd, in.Direction, in.Script)
					}
					return digestOf(b.String())
				}
			default:
				fm.SetQuery(fontscan.Query{Families: []string{"fam"}})
				f := fm.ResolveFace(rune(op.R))
				return func() string { return digestOf(f != nil) }
			}
		})
		out = append(out, d)
		status = append(status, p)
	}
	return
}

func forceAll(ls []lazy, ps []interface{}) (out []string, st []string) {
	for i, l := range ls {
		out = append(out, l())
		if ps[i] == nil {
			st = append(st, "ok")
		} else {
			st = append(st, "panic: "+fmt.Sprint(ps[i]))
		}
	}
	return
}

// runSet runs the reference (each goroutine's program alone) and the concurrent phase of one set and
// records the Set / Step events. progOf gives goroutine g's program.
func runSet(enc *json.Encoder, set, n int, progs [][]concOp, progOf func(g int) []concOp, ids []string) {
	ref := make([][]string, n)
	for g := 0; g < n; g++ {
		ref[g], _ = forceAll(runProgram(progOf(g), g))
	}
	// concurrent, free running (no hand-offs that would order the goroutines; results are digested afterwards)
	gotL := make([][]lazy, n)
	stL := make([][]interface{}, n)
	var wg sync.WaitGroup
	start := make(chan struct{})
	for g := 0; g < n; g++ {
		wg.Add(1)
		go func(g int) {
			defer wg.Done()
			<-start
			if g%3 == 0 {
				runtime.Gosched()
			}
			gotL[g], stL[g] = runProgram(progOf(g), g)
		}(g)
	}
	close(start)
	done := make(chan struct{})
	go func() { wg.Wait(); close(done) }()
	enc.Encode(map[string]interface{}{"ev": "Set", "set": set, "programs": progs, "goroutines": n, "fonts": ids})
	select {
	case <-done:
	case <-time.After(concHangAfter):
		// every program finished when run alone, so this is a hang of the concurrent run only; spinning
		// goroutines cannot be stopped: record it and end the process (the rest of the plan is not run)
		enc.Encode(map[string]interface{}{"ev": "Hang", "set": set, "fonts": ids, "after_s": int(concHangAfter / time.Second)})
		concFlush()
		fmt.Printf("{\"sets\": %d, \"goroutines\": %d, \"hang\": true}\n", set, n)
		os.Exit(0)
	}
	for g := 0; g < n; g++ {
		got, st := forceAll(gotL[g], stL[g])
		for i := range got {
			enc.Encode(map[string]interface{}{"ev": "Step", "set": set, "g": g, "i": i, "d": got[i], "sd": ref[g][i], "p": st[i]})
		}
	}
}

const concHangAfter = 90 * time.Second

var concFlush = func() {}

func concMain(args []string) error {
	// conc run <programsets.ndjson> <goroutines> <out.ndjson>
	// conc sweep <program.json> <goroutines> <out.ndjson> <one file in k>
	if len(args) < 4 || (args[0] != "run" && args[0] != "sweep") {
		return fmt.Errorf("conc: usage: conc run|sweep <sets> <goroutines> <out> [k]")
	}
	loadConcPool()
	seed := seedFromEnv()
	n, _ := strconv.Atoi(args[2])
	f, err := os.Open(args[1])
	if err != nil {
		return err
	}
	defer f.Close()
	of, err := os.Create(args[3])
	if err != nil {
		return err
	}
	defer of.Close()
	w := bufio.NewWriter(of)
	defer w.Flush()
	concFlush = func() { w.Flush() }
	enc := json.NewEncoder(w)
	sc := bufio.NewScanner(f)
	sc.Buffer(make([]byte, 1<<20), 1<<24)
	sets := 0
	if args[0] == "sweep" {
		k := 1
		if len(args) > 4 {
			k, _ = strconv.Atoi(args[4])
		}
		var prog []concOp
		if !sc.Scan() {
			return fmt.Errorf("conc sweep: empty program file")
		}
		if err := json.Unmarshal(sc.Bytes(), &prog); err != nil {
			return err
		}
		for fi, cf := range corpusFiles() {
			// every AAT / variable font, one in k of the others (rotating with the seed)
			special := false
			for _, slot := range []int{0, 2, 5} {
				for _, x := range concPool[slot] {
					if x.ID == cf.ID {
						special = true
					}
				}
			}
			if !special && k > 1 && (fi+int(seed))%k != 0 {
				continue
			}
			concFonts, concOwn, concAxes = nil, nil, nil
			if !addConcFont(cf) {
				continue
			}
			sets++
			runSet(enc, sets, n, [][]concOp{prog}, func(int) []concOp { return prog }, []string{cf.ID})
		}
		fmt.Printf("{\"sets\": %d, \"goroutines\": %d}\n", sets, n)
		return nil
	}
	for sc.Scan() {
		var progs [][]concOp
		if err := json.Unmarshal(sc.Bytes(), &progs); err != nil {
			return err
		}
		sets++
		ids, err := loadConcFonts(sets, seed)
		if err != nil {
			return err
		}
		runSet(enc, sets, n, progs, func(g int) []concOp { return progs[(g/len(concFonts))%len(progs)] }, ids)
	}
	fmt.Printf("{\"sets\": %d, \"goroutines\": %d}\n", sets, n)
	return nil
}

func init() { cmds["conc"] = concMain }
