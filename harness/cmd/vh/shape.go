package main

// Engine "shape" (C01, C12): calls shaping.HarfbuzzShaper.Shape / harfbuzz.Buffer.Shape on corpus
// faces with many inputs, under recover and a watchdog, and records the call and its outcome.
// Also applies word / letter spacing to synthetic runs. TLC (ShapeV.tla) decides.

import (
	"encoding/json"
	"fmt"
	"math/rand"
	"runtime/debug"
	"strconv"
	"strings"
	"time"
	"unicode"

	"github.com/go-text/typesetting/di"
	"github.com/go-text/typesetting/font"
	"github.com/go-text/typesetting/harfbuzz"
	"github.com/go-text/typesetting/language"
	"github.com/go-text/typesetting/shaping"
	"golang.org/x/image/math/fixed"
)

var shapeTexts = [][]rune{
	[]rune("Hello, World fi ffl 1/2"),
	{0x0301, 'a', 'b'},
	[]rune("سلام عليكم ١٢٣"),
	[]rune("שָׁלוֹם"),
	[]rune("क्षत्रिय हिन्दी"),
	[]rune("กำลัง ภาษาไทย"),
	[]rune("한국어 한"),
	{'a', 0x200D, 'b', 0x200C, 0x00AD, 0xFE0F, 0x034F, 'c'},
	{0x1F468, 0x200D, 0x1F469, 0x200D, 0x1F467, 0x1F1EB, 0x1F1F7},
	{0x0E01, 0x0E33, 0x0E4D, 0x17D2, 0x1780, 0x1039, 0x1000},
	{0xFFFF, 0x10FFFF, 0xD7FF, 0, 9, 10, 13, 0x2028},
	[]rune("မြန်မာ ខ្មែរ བོད་"),
	{},
	{0x0651, 0x0628, 0x0644, 0x0627},
}

var shapeScripts = []language.Script{language.Latin, language.Arabic, language.Devanagari, language.Thai, language.Hangul, language.Myanmar, language.Khmer, language.Hebrew, language.Common}

func topRepoFrame(stack string) string {
	for _, l := range strings.Split(stack, "\n") {
		l = strings.TrimSpace(l)
		if strings.HasPrefix(l, "github.com/go-text/typesetting/") && !strings.Contains(l, "typesetting-utils") {
			if i := strings.LastIndex(l, "("); i > 0 {
				l = l[:i]
			}
			return strings.TrimPrefix(l, "github.com/go-text/typesetting/")
		}
	}
	return "?"
}

type glyphRow [12]int

func glyphRows(gs []shaping.Glyph) []glyphRow {
	out := make([]glyphRow, len(gs))
	for i, g := range gs {
		out[i] = glyphRow{int(g.GlyphID), g.ClusterIndex, g.RuneCount, g.GlyphCount, int(g.XAdvance), int(g.YAdvance), int(g.XOffset), int(g.YOffset),
			int(g.Width), int(g.Height), int(g.XBearing), int(g.YBearing)}
	}
	return out
}

// withWatchdog runs f; reports "timeout" if it does not return in time (the goroutine is abandoned).
func withWatchdog(d time.Duration, f func()) (res string, site string) {
	done := make(chan [2]string, 1)
	go func() {
		r := [2]string{"ok", ""}
		defer func() {
			if e := recover(); e != nil {
				r = [2]string{"panic", topRepoFrame(string(debug.Stack())) + ": " + fmt.Sprint(e)}
			}
			done <- r
		}()
		f()
	}()
	select {
	case r := <-done:
		return r[0], r[1]
	case <-time.After(d):
		return "timeout", ""
	}
}

type shapeCall struct {
	id     string
	face   *font.Face
	text   []rune
	start  int
	end    int
	dir    di.Direction
	script language.Script
	lang   language.Language
	size   fixed.Int26_6
	feats  []shaping.FontFeature
}

func fontExtentsFact(face *font.Face, size fixed.Int26_6, d di.Direction) [3]int {
	h := harfbuzz.NewFont(face)
	h.XScale = int32(size.Ceil()) << 6
	h.YScale = h.XScale
	e := h.ExtentsForDirection(d.Harfbuzz())
	return [3]int{int(fixed.I(int(e.Ascender)) >> 6), int(fixed.I(int(e.Descender)) >> 6), int(fixed.I(int(e.LineGap)) >> 6)}
}

func observeShape(enc *json.Encoder, sh *shaping.HarfbuzzShaper, c shapeCall) {
	in := shaping.Input{Text: c.text, RunStart: c.start, RunEnd: c.end, Direction: c.dir, Face: c.face, Size: c.size, Script: c.script, Language: c.lang, FontFeatures: c.feats}
	var out shaping.Output
	res, site := withWatchdog(20*time.Second, func() { out = sh.Shape(in) })
	prog := 0
	if c.dir.Progression() == di.TowardTopLeft {
		prog = 1
	}
	ev := map[string]interface{}{"ev": "S", "id": c.id, "api": "shaping", "n": len(c.text), "start": c.start, "end": c.end, "prog": prog,
		"vert": c.dir.IsVertical(), "side": c.dir.IsSideways(), "res": res, "site": site, "off": 0, "cnt": 0, "adv": 0, "asc": 0, "desc": 0,
		"lb": [3]int{}, "fe": [3]int{}, "g": []glyphRow{}, "twin": []glyphRow{}, "lvl": 0, "npos": 0,
		"text": toInts(c.text), "size": int(c.size), "script": scriptName(c.script)}
	if res != "ok" {
		*sh = shaping.HarfbuzzShaper{}
		enc.Encode(ev)
		return
	}
	ev["off"], ev["cnt"], ev["adv"] = out.Runes.Offset, out.Runes.Count, int(out.Advance)
	ev["asc"], ev["desc"] = int(out.GlyphBounds.Ascent), int(out.GlyphBounds.Descent)
	ev["lb"] = [3]int{int(out.LineBounds.Ascent), int(out.LineBounds.Descent), int(out.LineBounds.Gap)}
	ev["g"] = glyphRows(out.Glyphs)
	ev["vert"] = out.Direction.IsVertical()
	r2, _ := withWatchdog(20*time.Second, func() { ev["fe"] = fontExtentsFact(c.face, c.size, out.Direction) })
	_ = r2
	if c.dir.IsSideways() {
		// the horizontal twin: same input, axis switched back
		tw := in
		tw.Direction = c.dir.SwitchAxis()
		tw.Direction = di.Direction(uint8(tw.Direction) & 1) // plain horizontal direction with the same progression
		var tout shaping.Output
		var fresh shaping.HarfbuzzShaper
		if r, _ := withWatchdog(20*time.Second, func() { tout = fresh.Shape(tw) }); r == "ok" {
			ev["twin"] = glyphRows(tout.Glyphs)
		}
	}
	enc.Encode(ev)
}

func ownRunes(face *font.Face, max int) []rune {
	var own []rune
	it := face.Cmap.Iter()
	for it.Next() && len(own) < max {
		r, _ := it.Char()
		own = append(own, r)
	}
	return own
}

// noExtentRunes lists runes of the face's own cmap whose glyph has no extents in the face (glyph id
// past the last glyph, or no outline/bitmap source): the shaper leaves such glyphs zero-sized, a path
// of its own in Shape.
func noExtentRunes(face *font.Face, scan, max int) []rune {
	var out []rune
	it := face.Cmap.Iter()
	for n := 0; it.Next() && n < scan && len(out) < max; n++ {
		r, g := it.Char()
		ok := true
		func() {
			defer func() { recover() }()
			_, ok = face.GlyphExtents(g)
		}()
		if !ok {
			out = append(out, r)
		}
	}
	return out
}

func shapeMain(args []string) error {
	if len(args) < 1 {
		return fmt.Errorf("shape: missing sub-command")
	}
	seed := seedFromEnv()
	switch args[0] {
	case "corpus":
		// shape corpus <maxFiles> <density 1..> <prefix> <shards>
		max, _ := strconv.Atoi(args[1])
		density, _ := strconv.Atoi(args[2])
		shards, _ := strconv.Atoi(args[4])
		sw := newShardWriter(args[3], shards)
		defer sw.close()
		var jobs []func(enc *json.Encoder)
		ncalls := 0
		sizes := []fixed.Int26_6{fixed.I(16), fixed.I(1), fixed.Int26_6(13*64 + 37), fixed.I(4096), fixed.I(72)}
		side := di.DirectionTTB
		side.SetSideways(true)
		sideB := di.DirectionBTT
		sideB.SetSideways(true)
		upr := di.DirectionTTB
		upr.SetSideways(false)
		dirs := []di.Direction{di.DirectionLTR, di.DirectionRTL, di.DirectionTTB, di.DirectionBTT, side, sideB, upr}
		for fi, cf := range sampleCorpus(max, seed) {
			faces, err, pan := loadFaces(cf.Data)
			if err != nil || pan != nil {
				continue
			}
			for xi, face := range faces {
				face, id := face, fmt.Sprintf("%s#%d", cf.ID, xi)
				rng := rand.New(rand.NewSource(seed*1000003 + int64(fi)*31 + int64(xi)))
				own := ownRunes(face, 4000)
				texts := append([][]rune(nil), shapeTexts...)
				for k := 0; k < 4 && len(own) > 0; k++ {
					L := 1 + rng.Intn(10)
					t := make([]rune, L)
					for i := range t {
						t[i] = own[rng.Intn(len(own))]
					}
					texts = append(texts, t)
				}
				if ne := noExtentRunes(face, 3000, 4); len(ne) > 0 && len(own) > 0 {
					t := []rune{own[rng.Intn(len(own))], ne[0], own[rng.Intn(len(own))], ne[len(ne)-1]}
					texts = append(texts, t, []rune{'a', ne[rng.Intn(len(ne))], 'b'})
				}
				jobs = append(jobs, func(enc *json.Encoder) {
					var sh shaping.HarfbuzzShaper
					if rng.Intn(2) == 0 {
						sh.SetFontCacheSize(4) // the shaper is re-used for all the calls of this face (sizes, directions, features vary)
					}
					for ti, text := range texts {
						for di_, dir := range dirs {
							for si, sc := range shapeScripts {
								if rng.Intn(27) >= density {
									continue
								}
								n := len(text)
								bounds := [][2]int{{0, n}}
								switch rng.Intn(6) {
								case 0:
									if n >= 2 {
										bounds = append(bounds, [2]int{1, n - 1})
									}
								case 1:
									bounds = append(bounds, [2]int{n, 0}) // swapped
								case 2:
									bounds = append(bounds, [2]int{-2, n + 3}) // outside
								case 3:
									if n >= 1 {
										k := rng.Intn(n)
										bounds = append(bounds, [2]int{k, k}) // empty run
									}
								}
								for _, b := range bounds {
									c := shapeCall{id: fmt.Sprintf("%s t%d d%d s%d b%v", id, ti, di_, si, b), face: face, text: text, start: b[0], end: b[1], dir: dir, script: sc,
										lang: []language.Language{"en", "ar", "", "hi"}[rng.Intn(4)], size: sizes[rng.Intn(len(sizes))]}
									if rng.Intn(5) == 0 {
										c.feats = []shaping.FontFeature{{Tag: 0x6c696761, Value: 0}, {Tag: 0x6b65726e, Value: 0}} // liga=0, kern=0
									}
									observeShape(enc, &sh, c)
								}
							}
						}
					}
				})
			}
		}
		// every corpus file (not only the sample): texts over the runes whose glyph has no extents
		noext := 0
		for fi, cf := range corpusFiles() {
			fi, cf := fi, cf
			jobs = append(jobs, func(enc *json.Encoder) {
				faces, err, pan := loadFaces(cf.Data)
				if err != nil || pan != nil {
					return
				}
				for xi, face := range faces {
					ne := noExtentRunes(face, 3000, 4)
					if len(ne) == 0 {
						continue
					}
					rng := rand.New(rand.NewSource(seed*911 + int64(fi)*31 + int64(xi)))
					own := ownRunes(face, 500)
					var sh shaping.HarfbuzzShaper
					text := []rune{own[rng.Intn(len(own))], ne[0], own[rng.Intn(len(own))], ne[len(ne)-1], 'a'}
					for di_, dir := range []di.Direction{di.DirectionLTR, di.DirectionRTL, di.DirectionTTB} {
						for _, b := range [][2]int{{0, len(text)}, {1, len(text) - 1}} {
							observeShape(enc, &sh, shapeCall{id: fmt.Sprintf("%s#%d noext d%d b%v", cf.ID, xi, di_, b), face: face, text: text, start: b[0], end: b[1], dir: dir,
								script: shapeScripts[rng.Intn(len(shapeScripts))], lang: "en", size: sizes[rng.Intn(len(sizes))]})
						}
					}
				}
			})
			noext++
		}
		runJobs(sw, jobs)
		fmt.Printf("{\"faces\": %d, \"calls\": %d}\n", len(jobs)-noext, ncalls)
		return nil

	case "hb":
		// shape hb <maxFiles> <prefix> <shards>: engine level, flags and cluster levels
		max, _ := strconv.Atoi(args[1])
		shards, _ := strconv.Atoi(args[3])
		sw := newShardWriter(args[2], shards)
		defer sw.close()
		var jobs []func(enc *json.Encoder)
		for fi, cf := range sampleCorpus(max, seed+1) {
			faces, err, pan := loadFaces(cf.Data)
			if err != nil || pan != nil {
				continue
			}
			for xi, face := range faces {
				face, id := face, fmt.Sprintf("%s#%d", cf.ID, xi)
				rng := rand.New(rand.NewSource(seed*7 + int64(fi)*131 + int64(xi)))
				own := ownRunes(face, 4000)
				texts := [][]rune{{0x0301, 'a', 'b'}, {0x0651, 0x0628, 0x0644}, {0x093C, 0x0915}, []rune("fi A"),
					{0x2060, 'a', 'b', 'c'}, {'a', 0x00AD, 'b', 0x200B}, {0x200D, 0x0628, 0x200C, 0x0644}, {0xFE0F, 'x', 0x034F},
					{0x0628, 0x064E, 0x0628}, {0x0D15, 0x0D4E, 0x0D15}, {'a', 'b', ' ', 0x0D15, 0x0D4E, 0x0D15}}
				for k := 0; k < 6 && len(own) > 0; k++ {
					L := 1 + rng.Intn(8)
					t := make([]rune, L)
					for i := range t {
						t[i] = own[rng.Intn(len(own))]
					}
					texts = append(texts, t)
				}
				// very long clusters: a base followed by hundreds of marks / joiners (the syllable machinery of the
				// complex shapers keeps one-byte positions); lengths on both sides of 127, 255 and 511
				{
					long := func(base rune, filler rune, n int, tail ...rune) []rune {
						t := []rune{base}
						for i := 0; i < n; i++ {
							t = append(t, filler)
						}
						return append(t, tail...)
					}
					var indic rune
					for _, r := range own {
						if r >= 0x0905 && r <= 0x0D7F && unicode.IsLetter(r) {
							indic = r
							break
						}
					}
					n := []int{120, 130, 250, 260, 300, 520}[rng.Intn(6)]
					if indic != 0 {
						texts = append(texts, long(indic, 0x0951, 300), long(indic, 0x0951, n), long(indic, 0x200C, n-20, indic))
					} else if len(own) > 0 && rng.Intn(4) == 0 {
						texts = append(texts, long(own[rng.Intn(len(own))], 0x0301, n))
					}
				}
				jobs = append(jobs, func(enc *json.Encoder) {
					hf := harfbuzz.NewFont(face)
					for ti, text := range texts {
						for _, dir := range []harfbuzz.Direction{harfbuzz.LeftToRight, harfbuzz.RightToLeft, harfbuzz.TopToBottom, harfbuzz.BottomToTop} {
							for _, flags := range []harfbuzz.ShappingOptions{0, harfbuzz.Bot | harfbuzz.Eot, harfbuzz.Bot | harfbuzz.RemoveDefaultIgnorables,
								harfbuzz.ProduceUnsafeToConcat, harfbuzz.ProduceSafeToInsertTatweel | harfbuzz.ProduceUnsafeToConcat} {
								for _, cl := range []harfbuzz.ClusterLevel{0, 1, 2} {
									if rng.Intn(3) != 0 {
										continue
									}
									// the whole text, or an item inside it (the rest is context), down to a single rune
									start, end := 0, len(text)
									switch rng.Intn(4) {
									case 0:
										if len(text) >= 3 {
											start, end = 1, len(text)-1
										}
									case 1:
										if len(text) >= 2 {
											start = rng.Intn(len(text))
											end = start + 1
										}
									}
									var b *harfbuzz.Buffer
									res, site := withWatchdog(20*time.Second, func() {
										// script and language of the paragraph, as a client itemising the text would set them
										pg := harfbuzz.NewBuffer()
										pg.AddRunes(text, 0, len(text))
										pg.GuessSegmentProperties()
										b = harfbuzz.NewBuffer()
										b.AddRunes(text, start, end-start)
										b.Flags = flags
										b.ClusterLevel = cl
										b.Props = pg.Props
										b.Props.Direction = dir
										b.Shape(hf, nil)
									})
									prog := 0
									if dir == harfbuzz.RightToLeft || dir == harfbuzz.BottomToTop {
										prog = 1
									}
									ev := map[string]interface{}{"ev": "S", "id": fmt.Sprintf("%s t%d dir%d f%d cl%d [%d,%d)", id, ti, dir, flags, cl, start, end), "api": "hb", "n": len(text), "start": start, "end": end,
										"prog": prog, "vert": false, "side": false, "res": res, "site": site, "g": [][2]int{}, "lvl": int(cl), "npos": 0, "text": toInts(text), "flags": int(flags)}
									if res == "ok" {
										g := make([][2]int, len(b.Info))
										for i, inf := range b.Info {
											g[i] = [2]int{int(inf.Glyph), inf.Cluster}
										}
										ev["g"] = g
										ev["npos"] = len(b.Pos)
									}
									enc.Encode(ev)
								}
							}
						}
					}
				})
			}
		}
		runJobs(sw, jobs)
		fmt.Printf("{\"faces\": %d}\n", len(jobs))
		return nil

	case "spacing":
		// shape spacing <prefix> <shards>: AddWordSpacing / AddLetterSpacing on synthetic runs
		shards, _ := strconv.Atoi(args[2])
		sw := newShardWriter(args[1], shards)
		defer sw.close()
		n := 0
		texts := [][]rune{[]rune("a b"), []rune("ab c"), []rune(" a "), []rune("a፡b c"), []rune("abc"), {' ', 0x10100, 'x', 0x1039F}}
		type row [6]int
		rows := func(o *shaping.Output, text []rune) []row {
			out := make([]row, len(o.Glyphs))
			for i, g := range o.Glyphs {
				r := 0
				if g.ClusterIndex >= 0 && g.ClusterIndex < len(text) {
					r = int(text[g.ClusterIndex])
				}
				adv, off := int(g.XAdvance), int(g.XOffset)
				if o.Direction.IsVertical() {
					adv, off = int(g.YAdvance), int(g.YOffset)
				}
				out[i] = row{g.ClusterIndex, g.RuneCount, g.GlyphCount, adv, off, r}
			}
			return out
		}
		for _, text := range texts {
			L := len(text)
			for mask := 0; mask < 1<<(L-1); mask++ {
				clusters := []int{0}
				for i := 1; i < L; i++ {
					if mask&(1<<(i-1)) != 0 {
						clusters = append(clusters, i)
					}
				}
				for _, gp := range []int{1, 2} {
					for _, d := range []int{0, 1} {
						for _, sp := range []int{-4, -2, 0, 2, 4, 3} {
							for _, fl := range [][2]bool{{true, true}, {true, false}, {false, true}, {false, false}} {
								for _, vert := range []bool{false, true} {
									s := synth{text: text, clusters: clusters, runSplit: []int{0}, dirs: []int{d}, glyphsPer: gp}
									run := s.build()[0]
									if vert {
										// same glyphs laid out on the vertical axis
										run.Direction = di.DirectionTTB
										if d == 1 {
											run.Direction = di.DirectionBTT
										}
										for i := range run.Glyphs {
											run.Glyphs[i].YAdvance, run.Glyphs[i].XAdvance = -run.Glyphs[i].XAdvance, 0
										}
										run.RecomputeAdvance()
									}
									for _, kind := range []string{"word", "letter"} {
										r := run
										r.Glyphs = append([]shaping.Glyph(nil), run.Glyphs...)
										before := rows(&r, text)
										spv := fixed.I(sp)
										if sp == 3 {
											spv = fixed.Int26_6(3*64 + 1) // an odd 26.6 value
										}
										if kind == "word" {
											r.AddWordSpacing(text, spv)
										} else {
											r.AddLetterSpacing(spv, fl[0], fl[1])
										}
										sw.enc().Encode(map[string]interface{}{"ev": "SP", "kind": kind, "s": int(spv), "start": fl[0], "end": fl[1], "vert": vert,
											"before": before, "after": rows(&r, text), "advafter": int(r.Advance)})
										n++
									}
								}
							}
						}
					}
				}
			}
		}
		fmt.Printf("{\"events\": %d}\n", n)
		return nil
	}
	return fmt.Errorf("shape: unknown sub-command")
}

func init() { cmds["shape"] = shapeMain }
