package main

// Texts derived from a font's own contextual rules (C18): for every (chained) context rule of GSUB
// and GPOS a glyph sequence backtrack + input + lookahead is picked from the rule's coverages,
// classes or glyph lists and mapped back to characters through the cmap (extended through single
// substitutions and ligatures, so that positional forms map to their base letter). These are the
// strings on which the font's contextual rules - including the "ignore" exceptions, rules with no
// nested lookup - actually fire; random strings almost never hit them.

import (
	"math/rand"
	"sort"

	"github.com/go-text/typesetting/font"
	"github.com/go-text/typesetting/font/opentype/tables"
)

type ruleGen struct {
	rev  map[tables.GlyphID][]rune
	gids []tables.GlyphID
	rng  *rand.Rand
	// budget bounds the number of coverage / class evaluations spent on one face
	budget int
}

func newRuleGen(face *font.Face, rng *rand.Rand) *ruleGen {
	g := &ruleGen{rev: map[tables.GlyphID][]rune{}, rng: rng}
	it := face.Cmap.Iter()
	for n := 0; it.Next() && n < 40000; n++ {
		r, gid := it.Char()
		if _, ok := g.rev[tables.GlyphID(gid)]; !ok && r != 0 {
			g.rev[tables.GlyphID(gid)] = []rune{r}
		}
	}
	g.sortGids()
	// closure through single substitutions and ligatures (two passes)
	for pass := 0; pass < 2; pass++ {
		for _, lk := range face.GSUB.Lookups {
			for _, st := range lk.Subtables {
				switch st := st.(type) {
				case tables.SingleSubs:
					switch d := st.Data.(type) {
					case tables.SingleSubstData1:
						for _, gid := range g.gids {
							if _, ok := d.Coverage.Index(gid); ok {
								g.add(tables.GlyphID(int(gid)+int(d.DeltaGlyphID)), g.rev[gid])
							}
						}
					case tables.SingleSubstData2:
						for _, gid := range g.gids {
							if i, ok := d.Coverage.Index(gid); ok && i < len(d.SubstituteGlyphIDs) {
								g.add(d.SubstituteGlyphIDs[i], g.rev[gid])
							}
						}
					}
				case tables.LigatureSubs:
					for _, gid := range g.gids {
						i, ok := st.Coverage.Index(gid)
						if !ok || i >= len(st.LigatureSets) {
							continue
						}
						for _, lig := range st.LigatureSets[i].Ligatures {
							rs := append([]rune(nil), g.rev[gid]...)
							for _, c := range lig.ComponentGlyphIDs {
								cr, ok := g.rev[c]
								if !ok {
									rs = nil
									break
								}
								rs = append(rs, cr...)
							}
							if rs != nil && len(rs) <= 6 {
								g.add(lig.LigatureGlyph, rs)
							}
						}
					}
				}
			}
		}
		g.sortGids()
	}
	return g
}

func (g *ruleGen) add(gid tables.GlyphID, rs []rune) {
	if _, ok := g.rev[gid]; !ok && len(rs) > 0 {
		g.rev[gid] = rs
	}
}

func (g *ruleGen) sortGids() {
	g.gids = g.gids[:0]
	for gid := range g.rev {
		g.gids = append(g.gids, gid)
	}
	sort.Slice(g.gids, func(i, j int) bool { return g.gids[i] < g.gids[j] })
}

// pick returns a glyph with a known character satisfying ok, chosen among the first few candidates
// found from a random starting point.
func (g *ruleGen) pick(ok func(tables.GlyphID) bool) (tables.GlyphID, bool) {
	if len(g.gids) == 0 {
		return 0, false
	}
	start := g.rng.Intn(len(g.gids))
	for k := 0; k < len(g.gids) && g.budget > 0; k++ {
		gid := g.gids[(start+k)%len(g.gids)]
		g.budget--
		if ok(gid) {
			return gid, true
		}
	}
	return 0, false
}

func (g *ruleGen) pickCov(cov tables.Coverage) (tables.GlyphID, bool) {
	if cov == nil {
		return 0, false
	}
	return g.pick(func(gid tables.GlyphID) bool { _, ok := cov.Index(gid); return ok })
}

func (g *ruleGen) pickCovIndex(cov tables.Coverage, index int) (tables.GlyphID, bool) {
	if cov == nil {
		return 0, false
	}
	return g.pick(func(gid tables.GlyphID) bool { i, ok := cov.Index(gid); return ok && i == index })
}

func (g *ruleGen) pickClass(cd tables.ClassDef, class uint16, cov tables.Coverage) (tables.GlyphID, bool) {
	if cd == nil {
		return 0, false
	}
	return g.pick(func(gid tables.GlyphID) bool {
		c, _ := cd.Class(gid)
		if c != class {
			return false
		}
		if cov != nil {
			_, ok := cov.Index(gid)
			return ok
		}
		return true
	})
}

func (g *ruleGen) has(gid tables.GlyphID) bool { _, ok := g.rev[gid]; return ok }

// text maps backtrack (closest first) + input + lookahead glyphs to characters
func (g *ruleGen) text(back, input, ahead []tables.GlyphID) []rune {
	var out []rune
	for i := len(back) - 1; i >= 0; i-- {
		out = append(out, g.rev[back[i]]...)
	}
	for _, x := range input {
		out = append(out, g.rev[x]...)
	}
	for _, x := range ahead {
		out = append(out, g.rev[x]...)
	}
	return out
}

type ruleText struct {
	Text  []rune
	Empty bool // the rule has no nested lookup (an exception, "ignore sub")
}

func (g *ruleGen) allHave(l ...[]tables.GlyphID) bool {
	for _, s := range l {
		for _, x := range s {
			if !g.has(x) {
				return false
			}
		}
	}
	return true
}

func (g *ruleGen) chained1(c tables.ChainedSequenceContextFormat1, cov tables.Coverage, out *[]ruleText) {
	for i, set := range c.ChainedSeqRuleSet {
		for _, r := range set.ChainedSeqRules {
			first, ok := g.pickCovIndex(cov, i)
			if !ok || !g.allHave(r.BacktrackSequence, r.InputSequence, r.LookaheadSequence) {
				continue
			}
			input := append([]tables.GlyphID{first}, r.InputSequence...)
			*out = append(*out, ruleText{g.text(r.BacktrackSequence, input, r.LookaheadSequence), len(r.SeqLookupRecords) == 0})
		}
	}
}

func (g *ruleGen) classSeq(cd tables.ClassDef, classes []tables.GlyphID) ([]tables.GlyphID, bool) {
	out := make([]tables.GlyphID, len(classes))
	for i, cl := range classes {
		gid, ok := g.pickClass(cd, uint16(cl), nil)
		if !ok {
			return nil, false
		}
		out[i] = gid
	}
	return out, true
}

func (g *ruleGen) chained2(c tables.ChainedSequenceContextFormat2, cov tables.Coverage, out *[]ruleText) {
	for cl, set := range c.ChainedClassSeqRuleSet {
		for _, r := range set.ChainedSeqRules {
			first, ok := g.pickClass(c.InputClassDef, uint16(cl), cov)
			if !ok {
				continue
			}
			back, ok1 := g.classSeq(c.BacktrackClassDef, r.BacktrackSequence)
			in, ok2 := g.classSeq(c.InputClassDef, r.InputSequence)
			ahead, ok3 := g.classSeq(c.LookaheadClassDef, r.LookaheadSequence)
			if !ok1 || !ok2 || !ok3 {
				continue
			}
			*out = append(*out, ruleText{g.text(back, append([]tables.GlyphID{first}, in...), ahead), len(r.SeqLookupRecords) == 0})
		}
	}
}

func (g *ruleGen) covSeq(covs []tables.Coverage) ([]tables.GlyphID, bool) {
	out := make([]tables.GlyphID, len(covs))
	for i, cv := range covs {
		gid, ok := g.pickCov(cv)
		if !ok {
			return nil, false
		}
		out[i] = gid
	}
	return out, true
}

func (g *ruleGen) chained3(c tables.ChainedSequenceContextFormat3, out *[]ruleText) {
	for k := 0; k < 3; k++ { // a few draws per rule: the coverages are sets
		back, ok1 := g.covSeq(c.BacktrackCoverages)
		in, ok2 := g.covSeq(c.InputCoverages)
		ahead, ok3 := g.covSeq(c.LookaheadCoverages)
		if !ok1 || !ok2 || !ok3 {
			return
		}
		*out = append(*out, ruleText{g.text(back, in, ahead), len(c.SeqLookupRecords) == 0})
	}
}

func (g *ruleGen) seq1(c tables.SequenceContextFormat1, cov tables.Coverage, out *[]ruleText) {
	for i, set := range c.SeqRuleSet {
		for _, r := range set.SeqRule {
			first, ok := g.pickCovIndex(cov, i)
			if !ok || !g.allHave(r.InputSequence) {
				continue
			}
			*out = append(*out, ruleText{g.text(nil, append([]tables.GlyphID{first}, r.InputSequence...), nil), len(r.SeqLookupRecords) == 0})
		}
	}
}

func (g *ruleGen) seq2(c tables.SequenceContextFormat2, cov tables.Coverage, out *[]ruleText) {
	for cl, set := range c.ClassSeqRuleSet {
		for _, r := range set.SeqRule {
			first, ok := g.pickClass(c.ClassDef, uint16(cl), cov)
			in, ok2 := g.classSeq(c.ClassDef, r.InputSequence)
			if !ok || !ok2 {
				continue
			}
			*out = append(*out, ruleText{g.text(nil, append([]tables.GlyphID{first}, in...), nil), len(r.SeqLookupRecords) == 0})
		}
	}
}

func (g *ruleGen) seq3(c tables.SequenceContextFormat3, out *[]ruleText) {
	for k := 0; k < 2; k++ {
		in, ok := g.covSeq(c.Coverages)
		if !ok {
			return
		}
		*out = append(*out, ruleText{g.text(nil, in, nil), len(c.SeqLookupRecords) == 0})
	}
}

// ruleTexts returns up to max texts (those of rules without nested lookups first in line for
// selection: half of the budget), each at most 12 characters.
func ruleTexts(face *font.Face, rng *rand.Rand, max, budget int) (texts []ruleText) {
	defer func() {
		if r := recover(); r != nil { // a malformed layout table of a corpus font: no rule texts for it
			texts = nil
		}
	}()
	g := newRuleGen(face, rng)
	g.budget = budget
	var all []ruleText
	var jobs []func()
	for _, lk := range face.GSUB.Lookups {
		for _, st := range lk.Subtables {
			switch st := st.(type) {
			case tables.ChainedContextualSubs:
				switch d := st.Data.(type) {
				case tables.ChainedContextualSubs1:
					jobs = append(jobs, func() { g.chained1(tables.ChainedSequenceContextFormat1(d), d.Cov(), &all) })
				case tables.ChainedContextualSubs2:
					jobs = append(jobs, func() { g.chained2(tables.ChainedSequenceContextFormat2(d), d.Cov(), &all) })
				case tables.ChainedContextualSubs3:
					jobs = append(jobs, func() { g.chained3(tables.ChainedSequenceContextFormat3(d), &all) })
				}
			case tables.ContextualSubs:
				switch d := st.Data.(type) {
				case tables.ContextualSubs1:
					jobs = append(jobs, func() { g.seq1(tables.SequenceContextFormat1(d), d.Cov(), &all) })
				case tables.ContextualSubs2:
					jobs = append(jobs, func() { g.seq2(tables.SequenceContextFormat2(d), d.Cov(), &all) })
				case tables.ContextualSubs3:
					jobs = append(jobs, func() { g.seq3(tables.SequenceContextFormat3(d), &all) })
				}
			}
		}
	}
	for _, lk := range face.GPOS.Lookups {
		for _, st := range lk.Subtables {
			switch st := st.(type) {
			case tables.ChainedContextualPos:
				switch d := st.Data.(type) {
				case tables.ChainedContextualPos1:
					jobs = append(jobs, func() { g.chained1(tables.ChainedSequenceContextFormat1(d), d.Cov(), &all) })
				case tables.ChainedContextualPos2:
					jobs = append(jobs, func() { g.chained2(tables.ChainedSequenceContextFormat2(d), d.Cov(), &all) })
				case tables.ChainedContextualPos3:
					jobs = append(jobs, func() { g.chained3(tables.ChainedSequenceContextFormat3(d), &all) })
				}
			case tables.ContextualPos:
				switch d := st.Data.(type) {
				case tables.ContextualPos1:
					jobs = append(jobs, func() { g.seq1(tables.SequenceContextFormat1(d), d.Cov(), &all) })
				case tables.ContextualPos2:
					jobs = append(jobs, func() { g.seq2(tables.SequenceContextFormat2(d), d.Cov(), &all) })
				case tables.ContextualPos3:
					jobs = append(jobs, func() { g.seq3(tables.SequenceContextFormat3(d), &all) })
				}
			}
		}
	}
	rng.Shuffle(len(jobs), func(i, j int) { jobs[i], jobs[j] = jobs[j], jobs[i] })
	for _, j := range jobs {
		if g.budget <= 0 || len(all) > 20000 {
			break
		}
		j()
	}
	var empty, other []ruleText
	for _, t := range all {
		if len(t.Text) < 2 || len(t.Text) > 12 {
			continue
		}
		if t.Empty {
			empty = append(empty, t)
		} else {
			other = append(other, t)
		}
	}
	rng.Shuffle(len(empty), func(i, j int) { empty[i], empty[j] = empty[j], empty[i] })
	rng.Shuffle(len(other), func(i, j int) { other[i], other[j] = other[j], other[i] })
	for len(texts) < max/2 && len(empty) > 0 {
		texts, empty = append(texts, empty[0]), empty[1:]
	}
	for len(texts) < max && len(other) > 0 {
		texts, other = append(texts, other[0]), other[1:]
	}
	for len(texts) < max && len(empty) > 0 {
		texts, empty = append(texts, empty[0]), empty[1:]
	}
	return texts
}
