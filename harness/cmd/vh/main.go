package main

import (
	"fmt"
	"os"
)

type cmd func(args []string) error

var cmds = map[string]cmd{}

func main() {
	if len(os.Args) < 2 {
		fmt.Fprintln(os.Stderr, "usage: vh <engine> args...")
		os.Exit(2)
	}
	c, ok := cmds[os.Args[1]]
	if !ok {
		fmt.Fprintln(os.Stderr, "unknown engine", os.Args[1])
		os.Exit(2)
	}
	if err := c(os.Args[2:]); err != nil {
		fmt.Fprintln(os.Stderr, "vh:", err)
		os.Exit(2)
	}
}
