package main

// Engine "ucd" (C20): logs complete descriptions of the Unicode / language lookup tables and of
// what the lookup functions return over ALL code points, plus di.Direction setter transitions.
// TLC (UcdV.tla with Tables.tla, Direction.tla, LangTag.tla) evaluates the laws.

import (
	"encoding/json"
	"fmt"
	"math/rand"
	"os"
	"sort"
	"unicode"

	"github.com/go-text/typesetting/di"
	"github.com/go-text/typesetting/harfbuzz"
	"github.com/go-text/typesetting/language"
	ucd "github.com/go-text/typesetting/unicodedata"
	"golang.org/x/text/unicode/norm"
)

func flattenTable(t *unicode.RangeTable) [][2]int {
	var pts [][2]int
	if t == nil {
		return [][2]int{}
	}
	add := func(lo, hi, stride int) {
		if stride == 1 {
			pts = append(pts, [2]int{lo, hi})
			return
		}
		for r := lo; r <= hi; r += stride {
			pts = append(pts, [2]int{r, r})
		}
	}
	for _, r := range t.R16 {
		add(int(r.Lo), int(r.Hi), int(r.Stride))
	}
	for _, r := range t.R32 {
		add(int(r.Lo), int(r.Hi), int(r.Stride))
	}
	// keep the table's own order (sortedness is a law checked by the spec), only merge
	// directly adjacent stride points to keep the log small
	out := [][2]int{}
	for _, p := range pts {
		if n := len(out); n > 0 && out[n-1][1]+1 == p[0] && p[0] == p[1] && out[n-1][0] <= out[n-1][1] {
			out[n-1][1] = p[1]
		} else {
			out = append(out, p)
		}
	}
	return out
}

type famTable struct {
	Name   string   `json:"name"`
	Ranges [][2]int `json:"ranges"`
}

type famEvent struct {
	K       string        `json:"k"`
	Name    string        `json:"name"`
	Default string        `json:"default"`
	Tables  []famTable    `json:"tables"`
	Merged  [][3]int      `json:"merged"`
	Runs    []interface{} `json:"runs"`
}

func familyEvent(name, def string, tables []famTable, lookup func(r rune) string) famEvent {
	ev := famEvent{K: "family", Name: name, Default: def, Tables: tables, Merged: [][3]int{}, Runs: []interface{}{}}
	for k, t := range tables {
		for _, r := range t.Ranges {
			ev.Merged = append(ev.Merged, [3]int{r[0], r[1], k + 1})
		}
	}
	sort.SliceStable(ev.Merged, func(i, j int) bool { return ev.Merged[i][0] < ev.Merged[j][0] })
	lo, cur := 0, lookup(0)
	for r := rune(1); r <= maxRune; r++ {
		c := lookup(r)
		if c != cur {
			ev.Runs = append(ev.Runs, []interface{}{lo, int(r) - 1, cur})
			lo, cur = int(r), c
		}
	}
	ev.Runs = append(ev.Runs, []interface{}{lo, maxRune, cur})
	return ev
}

func hbDirName(d harfbuzz.Direction) string {
	switch d {
	case harfbuzz.RightToLeft:
		return "RTL"
	case harfbuzz.TopToBottom:
		return "TTB"
	case harfbuzz.BottomToTop:
		return "BTT"
	}
	return "LTR"
}

func dirAcc(d di.Direction) map[string]interface{} {
	p := 0
	if d.Progression() == di.TowardTopLeft {
		p = 1
	}
	return map[string]interface{}{"vert": d.IsVertical(), "side": d.IsSideways(), "oset": d.HasVerticalOrientation(), "prog": p, "hb": hbDirName(d.Harfbuzz()),
		"axis": d.Axis() == di.Vertical}
}

func toCodes(s string) []int {
	out := []int{}
	for _, r := range s {
		out = append(out, int(r))
	}
	return out
}

func ucdMain(args []string) error {
	if len(args) < 2 {
		return fmt.Errorf("ucd: usage: ucd all <out.ndjson>")
	}
	seed := seedFromEnv()
	f, err := os.Create(args[1])
	if err != nil {
		return err
	}
	defer f.Close()
	enc := json.NewEncoder(f)
	n := 0
	emit := func(v interface{}) { enc.Encode(v); n++ }

	// ---- Direction: all 256 values x all setter calls
	for v := 0; v < 256; v++ {
		for _, op := range []struct {
			name string
			arg  int
		}{{"SetProgression", 0}, {"SetProgression", 1}, {"SwitchAxis", 0}, {"SetSideways", 0}, {"SetSideways", 1}} {
			d := di.Direction(v)
			before := dirAcc(d)
			switch op.name {
			case "SetProgression":
				d.SetProgression(di.Progression(op.arg == 1))
			case "SwitchAxis":
				d = d.SwitchAxis()
			case "SetSideways":
				d.SetSideways(op.arg == 1)
			}
			emit(map[string]interface{}{"k": "dir", "v": v, "op": op.name, "arg": op.arg, "after": int(d), "accb": before, "acc": dirAcc(d)})
		}
	}

	// ---- classification table families
	named := func(ts []*unicode.RangeTable, names func(i int, t *unicode.RangeTable) string) []famTable {
		out := []famTable{}
		for i, t := range ts {
			if t == nil {
				continue
			}
			out = append(out, famTable{Name: names(i, t), Ranges: flattenTable(t)})
		}
		return out
	}
	lbTabs := ucd.VerifLineBreaks()
	emit(familyEvent("linebreak", "XX", named(lbTabs, func(i int, t *unicode.RangeTable) string { return lbNames[t] }),
		func(r rune) string { return lbNames[ucd.LookupLineBreakClass(r)] }))
	emit(familyEvent("grapheme", "XX", named(ucd.VerifGraphemeBreaks(), func(i int, t *unicode.RangeTable) string { return gbNames[t] }),
		func(r rune) string { return gbNames[ucd.LookupGraphemeBreakClass(r)] }))
	emit(familyEvent("word", "XX", named(ucd.VerifWordBreaks(), func(i int, t *unicode.RangeTable) string { return wbNames[t] }),
		func(r rune) string { return wbNames[ucd.LookupWordBreakClass(r)] }))
	emit(familyEvent("combining", "0", named(ucd.VerifCombiningClasses(), func(i int, t *unicode.RangeTable) string { return fmt.Sprint(i) }),
		func(r rune) string { return fmt.Sprint(ucd.LookupCombiningClass(r)) }))
	catName := map[*unicode.RangeTable]string{nil: "none"}
	for k, t := range unicode.Categories {
		if len(k) == 2 {
			catName[t] = k
		}
	}
	cats := ucd.VerifCategories()
	catTabs := named(cats, func(i int, t *unicode.RangeTable) string { return catName[t] })
	sort.Slice(catTabs, func(i, j int) bool { return catTabs[i].Name < catTabs[j].Name })
	emit(familyEvent("category", "none", catTabs, func(r rune) string { return catName[ucd.LookupType(r)] }))
	// scripts: one "table" per range, in table order (LookupScript bisects the range list)
	scriptTabs := map[string]*famTable{}
	var scriptOrder []string
	for _, sr := range language.ScriptRanges {
		nm := scriptName(sr.Script)
		t, ok := scriptTabs[nm]
		if !ok {
			t = &famTable{Name: nm, Ranges: [][2]int{}}
			scriptTabs[nm] = t
			scriptOrder = append(scriptOrder, nm)
		}
		t.Ranges = append(t.Ranges, [2]int{int(sr.Start), int(sr.End)})
	}
	var stabs []famTable
	for _, nm := range scriptOrder {
		stabs = append(stabs, *scriptTabs[nm])
	}
	emit(familyEvent("script", scriptName(language.Unknown), stabs, func(r rune) string { return scriptName(language.LookupScript(r)) }))
	// the script range list itself must be sorted for the bisection: logged as a single table
	all := famTable{Name: "all", Ranges: [][2]int{}}
	for _, sr := range language.ScriptRanges {
		all.Ranges = append(all.Ranges, [2]int{int(sr.Start), int(sr.End)})
	}
	emit(familyEvent("scriptranges", "none", []famTable{all}, func(r rune) string {
		if language.LookupScript(r) == language.Unknown {
			// Unknown may also be an explicit range; resolved through the table below
			for _, sr := range language.ScriptRanges {
				if sr.Start <= r && r <= sr.End {
					return "all"
				}
			}
			return "none"
		}
		return "all"
	}))

	// ---- mirroring
	pairs := [][2]int{}
	for r := rune(0); r <= maxRune; r++ {
		if m, ok := ucd.LookupMirrorChar(r); ok && m != r {
			pairs = append(pairs, [2]int{int(r), int(m)})
		} else if !ok && m != r {
			pairs = append(pairs, [2]int{int(r), -1}) // contract breach: not found but a different rune returned
		}
	}
	emit(map[string]interface{}{"k": "mirror", "pairs": pairs})

	// ---- decomposition / composition
	excluded := func(ab rune) int {
		s := string(ab)
		if norm.NFC.String(norm.NFD.String(s)) != s {
			return 1
		}
		return 0
	}
	var dec [][6]int
	for ab := rune(0); ab <= maxRune; ab++ {
		a, b, ok := ucd.Decompose(ab)
		if !ok {
			continue
		}
		c, cok := ucd.Compose(a, b)
		k := 0
		if cok {
			k = 1
		}
		dec = append(dec, [6]int{int(ab), int(a), int(b), excluded(ab), int(c), k})
	}
	for i := 0; i < len(dec); i += 4000 {
		j := i + 4000
		if j > len(dec) {
			j = len(dec)
		}
		emit(map[string]interface{}{"k": "decomp", "entries": dec[i:j]})
	}
	var comp [][6]int
	for k := range ucd.VerifCompose() {
		ab, cok := ucd.Compose(k[0], k[1]) // table entries with value 0 mark pairs that do not compose
		if !cok {
			continue
		}
		da, db, ok := ucd.Decompose(ab)
		o := 0
		if ok {
			o = 1
		}
		comp = append(comp, [6]int{int(k[0]), int(k[1]), int(ab), int(da), int(db), o})
	}
	sort.Slice(comp, func(i, j int) bool { return comp[i][2] < comp[j][2] })
	emit(map[string]interface{}{"k": "comp", "entries": comp})

	// ---- language tags
	total, _ := language.VerifLangCount()
	for id := 1; id < total; id++ {
		tag := language.LangID(id).Language()
		back, ok := language.NewLangID(tag)
		emit(map[string]interface{}{"k": "langid", "id": id, "tag": string(tag), "back": int(back), "ok": ok})
	}
	alpha := []rune{'a', 'B', '_', '-', '1', 'é', 'x', '@', 'Z', 0x130}
	rng := rand.New(rand.NewSource(seed*17 + 1))
	var gen func(cur []rune, n int)
	cnt := 0
	gen = func(cur []rune, n int) {
		s := string(cur)
		c1 := language.NewLanguage(s)
		c2 := language.NewLanguage(string(c1))
		emit(map[string]interface{}{"k": "lang", "s": toCodes(s), "c1": toCodes(string(c1)), "c2": toCodes(string(c2))})
		cnt++
		if len(cur) == n {
			return
		}
		for _, a := range alpha[:7] {
			gen(append(append([]rune(nil), cur...), a), n)
		}
	}
	gen(nil, 4)
	for i := 0; i < 3000; i++ {
		L := rng.Intn(12)
		s := make([]rune, L)
		for j := range s {
			s[j] = alpha[rng.Intn(len(alpha))]
		}
		c1 := language.NewLanguage(string(s))
		c2 := language.NewLanguage(string(c1))
		emit(map[string]interface{}{"k": "lang", "s": toCodes(string(s)), "c1": toCodes(string(c1)), "c2": toCodes(string(c2))})
	}
	// primary fallback: table tags extended with a region / variant
	for id := 1; id < total; id++ {
		base := language.LangID(id).Language()
		for _, suf := range []string{"-zz", "-x-private", "-Latn-zz"} {
			tag := language.NewLanguage(string(base) + suf)
			got, ok := language.NewLangID(tag)
			exact := false
			for j := 1; j < total; j++ {
				if language.LangID(j).Language() == tag {
					exact = true
				}
			}
			pid, pok := language.NewLangID(tag.Primary())
			emit(map[string]interface{}{"k": "langprimary", "tag": string(tag), "id": int(got), "ok": ok, "exact": exact, "primaryid": int(pid), "primaryok": pok})
		}
	}
	fmt.Printf("{\"events\": %d}\n", n)
	return nil
}

func init() { cmds["ucd"] = ucdMain }
